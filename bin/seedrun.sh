#!/bin/bash
# seedrun.sh <patch.diff> <check id>... : runs checks against a seeded change
# WITHOUT touching /repo: the patch is applied in a scratch worktree, the
# changed files are injected through an extra overlay, binaries/evidence/
# artefacts go to a private scratch directory.  Prints one line per check:
#   SEED <id> exit=<code> keys=<violation keys>
# Env: SEED_TIER (quick), SEED_BUDGET_S (per-check budget override for E-SIM checks)
set -u
patch=$(readlink -f "$1"); shift
V=${VERIF_DIR:-/verif}
S=$(mktemp -d /dev/shm/seedrun-XXXXXX)
trap 'git -C /repo worktree remove --force $S/wt >/dev/null 2>&1; rm -rf $S' EXIT
git -C /repo worktree add -q --detach $S/wt HEAD || exit 3
if ! git -C $S/wt apply "$patch"; then echo "SEED patch does not apply"; exit 3; fi
: > $S/extra.txt
for f in $(git -C $S/wt diff --name-only; git -C $S/wt ls-files --others --exclude-standard); do
  case "$f" in *_test.go|SEED/*) continue;; *.go) echo "/repo/$f $S/wt/$f" >> $S/extra.txt;; esac
done
export VERIF_EXTRA_OVERLAY=$S/extra.txt VERIF_BUILD=$S/build VERIF_EVIDENCE_DIR=$S/evidence VERIF_OUT_DIR=$S/out
[ -n "${SEED_BUDGET_S:-}" ] && export VERIF_BUDGET_S=$SEED_BUDGET_S
if ! $V/bin/build.sh > $S/build.log 2>&1; then echo "SEED build failed"; tail -5 $S/build.log; exit 3; fi
for id in "$@"; do
  out=$($V/bin/vcheck $id --tier ${SEED_TIER:-quick} 2>&1); code=$?
  keys=$(echo "$out" | grep -E "^  key=" | sed 's/^  key=\([^ ]*\).*/\1/' | tr '\n' ' ')
  echo "SEED $id exit=$code keys=$keys"
  if [ -n "${SEED_VERBOSE:-}" ]; then echo "$out" | tail -15; fi
done
