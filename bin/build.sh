#!/bin/bash
# Rebuilds the verification binaries from /repo's current working tree.
# The harness sources in /verif/harness/{raft,log} are injected into the
# packages github.com/santhosh-tekuri/raft and .../raft/log with -overlay;
# /repo itself is not touched.  Usage: build.sh [race]
set -e
V=${VERIF_DIR:-/verif}
REPO=${VERIF_REPO:-/repo}
export GOFLAGS=-mod=mod GOPROXY=off GOSUMDB=off GOTOOLCHAIN=local
B=${VERIF_BUILD:-$V/.build}
mkdir -p $B/bin $B/gen
sed 's/PKGNAME/raft/' $V/harness/kit/kit.go.in > $B/gen/kit_raft.go.new
sed 's/PKGNAME/log/' $V/harness/kit/kit.go.in > $B/gen/kit_log.go.new
for f in kit_raft kit_log; do
  if ! cmp -s $B/gen/$f.go.new $B/gen/$f.go; then mv $B/gen/$f.go.new $B/gen/$f.go; else rm $B/gen/$f.go.new; fi
done
{
  echo '{"Replace":{'
  first=1
  emit() { if [ $first = 1 ]; then first=0; else echo ','; fi; printf '  "%s": "%s"' "$1" "$2"; }
  emit "$REPO/zz_verif_kit.go" "$B/gen/kit_raft.go"
  emit "$REPO/log/zz_verif_kit.go" "$B/gen/kit_log.go"
  excluded() { local b=$1 p; local IFS='|'; for p in ${VERIF_EXCLUDE:-__none__}; do case "$b" in $p) return 0;; esac; done; return 1; }
  for f in $V/harness/raft/*.go; do excluded "$(basename $f)" && continue; [ -e "$f" ] && emit "$REPO/zz_verif_$(basename $f)" "$f"; done
  for f in $V/harness/log/*.go; do [ -e "$f" ] && emit "$REPO/log/zz_verif_$(basename $f)" "$f"; done
  # optional extra overlay entries (mutants): files listed as "dst src" lines
  if [ -n "$VERIF_EXTRA_OVERLAY" ] && [ -e "$VERIF_EXTRA_OVERLAY" ]; then
    while read dst src; do [ -n "$dst" ] && emit "$dst" "$src"; done < "$VERIF_EXTRA_OVERLAY"
  fi
  echo; echo '}}'
} > $B/overlay.json
cd $V
if [ "$1" = race ]; then
  go build -race -tags verif -overlay $B/overlay.json -o $B/bin/vraft-race ./cmd/vraft
else
  go build -tags verif -overlay $B/overlay.json -o $B/bin/vraft ./cmd/vraft
  go build -tags verif -overlay $B/overlay.json -o $B/bin/vlog ./cmd/vlog
fi
