#!/bin/bash
# seedexplore.sh <patch.diff> <vraft args...> : build a private binary with the patch injected and run `vraft <args>`
set -u
patch=$(readlink -f "$1"); shift
V=${VERIF_DIR:-/verif}
S=$(mktemp -d /dev/shm/seedexp-XXXXXX)
trap 'git -C /repo worktree remove --force $S/wt >/dev/null 2>&1; rm -rf $S' EXIT
git -C /repo worktree add -q --detach $S/wt HEAD || exit 3
git -C $S/wt apply "$patch" || exit 3
: > $S/extra.txt
for f in $(git -C $S/wt diff --name-only); do case "$f" in *_test.go) ;; *.go) echo "/repo/$f $S/wt/$f" >> $S/extra.txt;; esac; done
VERIF_EXTRA_OVERLAY=$S/extra.txt VERIF_BUILD=$S/build $V/bin/build.sh > $S/build.log 2>&1 || { tail -5 $S/build.log; exit 3; }
VERIF_EVIDENCE_DIR=$S/evidence VERIF_OUT_DIR=$S/out $S/build/bin/vraft "$@"
