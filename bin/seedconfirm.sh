#!/bin/bash
# seedconfirm.sh <candidate dir with patch.diff and *_test.go> : confirms in a
# scratch worktree of /repo (never /repo itself) that
#   (1) the demonstration passes on the unchanged code,
#   (2) it fails with the change,
#   (3) the full pinned suite passes with the change.
# Prints: CONFIRM <dir> clean=<PASS|FAIL> changed=<PASS|FAIL> suite=<PASS|FAIL>
set -u
cand=$(readlink -f "$1")
export GOFLAGS=-mod=mod GOPROXY=off GOSUMDB=off GOTOOLCHAIN=local
S=$(mktemp -d /dev/shm/seedconf-XXXXXX)
trap 'git -C /repo worktree remove --force $S/wt >/dev/null 2>&1; rm -rf $S' EXIT
git -C /repo worktree add -q --detach $S/wt HEAD || exit 3
demo=$(ls $cand/*_test.go | head -1)
pkgdir=.
grep -q '^package log' $demo && pkgdir=log
tests=$(grep -o '^func Test[A-Za-z0-9_]*' $demo | sed 's/func //' | paste -sd'|')
cp $demo $S/wt/$pkgdir/zz_seed_demo_test.go
run_demo() { (cd $S/wt && go test -vet=off -count=1 -timeout 10m -run "^($tests)\$" ./$pkgdir > $S/demo.log 2>&1); }
if run_demo; then clean=PASS; else clean=FAIL; cp $S/demo.log $S/demo_clean.log; fi
if ! git -C $S/wt apply $cand/patch.diff; then echo "CONFIRM $cand patch-does-not-apply"; exit 3; fi
if run_demo; then changed=PASS; else changed=FAIL; fi
rm -f $S/wt/$pkgdir/zz_seed_demo_test.go
if (cd $S/wt && go test -vet=off -count=1 -timeout 25m ./... > $S/suite.log 2>&1); then suite=PASS; else suite=FAIL; fi
echo "CONFIRM $cand clean=$clean changed=$changed suite=$suite"
[ "$suite" = FAIL ] && grep -E "^(--- FAIL|FAIL|panic)" $S/suite.log | head -5
[ "$clean" = FAIL ] && tail -5 $S/demo_clean.log
exit 0
