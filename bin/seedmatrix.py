#!/usr/bin/env python3
# Prints the detection matrix (markdown) from seeded/*/meta.json.
import json, glob
print('| id | change (one line) | caught by (quick tier) | violation keys |')
print('|---|---|---|---|')
for f in sorted(glob.glob('/verif/seeded/C*/meta.json')):
    m=json.load(open(f))
    keys=[]
    for c in m['caught_by']:
        for k in m['checks_run'][c]['keys'][:2]:
            if k not in keys: keys.append(k)
    missed=sorted(c for c,r in m['checks_run'].items() if r['exit']==0)
    cb=', '.join(m['caught_by'])
    if missed: cb+=' (run, silent: %s)'%', '.join(missed)
    print('| %s | %s | %s | %s |'%(m['id'],m['change'].replace('|','\\|'),cb,' '.join('`%s`'%k for k in keys[:3])))
