#!/usr/bin/env python3
# Collects confirmed seeded changes into /verif/seeded/<id>/ (patch.diff, demonstration, meta.json)
# from the sub-agents' scratch worktrees and the confirm / evaluation logs.
import json, os, re, shutil, glob, sys
V='/verif'
needs=json.load(open(f'{V}/seeded/needs.json'))
logdir=sys.argv[1] if len(sys.argv)>1 else '/dev/shm/seedlogs'
OFF={'':0,'2':2,'3':4}
confirm={}
for f in sorted(glob.glob(f'{logdir}/confirm*.log')):
    for line in open(f):
        m=re.match(r'CONFIRM /tmp/seed([23]?)-(C\d+)/SEED/cand(\d) clean=(\w+) changed=(\w+) suite=(\w+)',line)
        if m: confirm[f'{m.group(2)}-{int(m.group(3))+OFF[m.group(1)]}']={'demo_on_unchanged_code':m.group(4),'demo_with_change':m.group(5),'pinned_suite_with_change':m.group(6)}
evals={}
for f in sorted(glob.glob(f'{logdir}/eval*.log')):
    cur=None
    for line in open(f):
        m=re.match(r'### /tmp/seed([23]?)-(C\d+)/SEED/cand(\d)/patch.diff',line)
        if m: cur=f'{m.group(2)}-{int(m.group(3))+OFF[m.group(1)]}'; continue
        m=re.match(r'SEED (C\d+) exit=(\d+) keys=(.*)',line)
        if m and cur:
            keys=m.group(3).split()
            evals.setdefault(cur,{})[m.group(1)]={'exit':int(m.group(2)),'keys':keys[:6]+(['...(%d more)'%(len(keys)-6)] if len(keys)>6 else [])}
out={}
for sid,nd in sorted(needs.items()):
    prop,k=sid.split('-')
    src=f'/tmp/seed-{prop}/SEED/cand{k}' if int(k)<=2 else (f'/tmp/seed2-{prop}/SEED/cand{int(k)-2}' if int(k)<=4 else f'/tmp/seed3-{prop}/SEED/cand{int(k)-4}')
    dst=f'{V}/seeded/{sid}'
    c=confirm.get(sid)
    if not c or c!={'demo_on_unchanged_code':'PASS','demo_with_change':'FAIL','pinned_suite_with_change':'PASS'}:
        out[sid]='not confirmed: %s'%c; continue
    if os.path.isdir(src):
        os.makedirs(dst,exist_ok=True)
        shutil.copy(f'{src}/patch.diff',f'{dst}/patch.diff')
        for t in glob.glob(f'{src}/*_test.go'): shutil.copy(t,f'{dst}/seed_demo_test.go.txt')
        if os.path.exists(f'{src}/NOTES.md'): shutil.copy(f'{src}/NOTES.md',f'{dst}/NOTES.md')
    ev=evals.get(sid,{})
    caught=sorted(i for i,r in ev.items() if r['exit']==1)
    meta={'id':sid,'breaks_property':prop,'written_by':'independent sub-agent given only the property text and a scratch worktree (nothing from /verif)',
          'change':nd['change'],'needs_to_manifest':nd['needs'],
          'confirmed':c,'confirmed_how':'bin/seedconfirm.sh in a scratch worktree of /repo: demonstration on unchanged code, with the change, full pinned suite with the change',
          'checks_run':ev,'caught_by':caught,
          'how_to_run':f'bin/seedrun.sh seeded/{sid}/patch.diff <check ids>  (scratch worktree + overlay; /repo untouched); or: git -C /repo apply seeded/{sid}/patch.diff; bin/vcheck <id>; git -C /repo checkout -- .',
          'note':'the demonstration is stored as seed_demo_test.go.txt (a _test.go file here would be picked up by go tooling); copy it into the package directory named in its header to run it'}
    json.dump(meta,open(f'{dst}/meta.json','w'),indent=1)
    out[sid]='caught by %s'%caught if caught else 'MISSED (checks run: %s)'%sorted(ev)
for k,v in out.items(): print(k,v)
