#!/usr/bin/env python3
# Prints the measured-coverage table (markdown) from evidence/*.json (or the directory given).
import json, glob, sys, os
d=sys.argv[1] if len(sys.argv)>1 else '/verif/evidence'
print('| check | tier | wall | states / transitions (or cases) | scenarios: bound completed / attempted | exhaustive within bounds |')
print('|---|---|---|---|---|---|')
for f in sorted(glob.glob(d+'/C*.json')):
    e=json.load(open(f)); c=e['coverage']
    if 'states' in c and 'scenarios' in c:
        n=f"{c['states']} / {c['transitions']}"
        sc=[]
        for s in c['scenarios']:
            if 'not_run' in s: sc.append(f"{s['name']}: not run"); continue
            sc.append(f"{s['name']}: {s['deviation_bound_completed']}/{s['deviation_bound']}")
        scs='; '.join(sc)
    elif 'states' in c and 'evaluations' not in c:
        n=f"{c['states']} / {c['transitions']}"
        scs=str(c.get('bound',''))[:200]
    else:
        n=f"{c.get('evaluations','?')} evaluations, {c.get('distinct_nontrivial','?')} distinct"
        scs=(str(c.get('bound','')) or (c.get('rule','') or ''))[:200]
    print(f"| {e['property_id']} | {e['tier']} | {e['wall_s']:.0f} s | {n} | {scs} | {c.get('exhaustive')} |")
