#!/bin/bash
# MANIFEST.setup_cmd: offline build of the framework (warms the Go build cache).
set -e
V=${VERIF_DIR:-/verif}
$V/bin/build.sh
$V/bin/build.sh race || echo "race build failed (supplementary pass only)"
echo setup-ok
