// +build verif

package log

// Entry points of the two E-LOG checks.
//
//   vlog check C13 [--tier quick|thorough] [--depth n] [--seg a,b] [--cap seconds] [--replay file]
//   vlog check C14 [--tier quick|thorough] [--depth n] [--seg a,b] [--cap seconds] [--replay file]

import (
	"fmt"
	"os"
	"sort"
	"strconv"
	"strings"
	"time"
)

func init() {
	vkChecks["C13"] = eCheckC13
	vkChecks["C14"] = eCheckC14
}

func eMid(seg int) int {
	if seg >= 4096 {
		return 3000
	}
	return 300
}

func eSegs(args []string, def []int) []int {
	s := vkArg(args, "seg", "")
	if s == "" {
		return def
	}
	var out []int
	for _, f := range strings.Split(s, ",") {
		if n, err := strconv.Atoi(f); err == nil {
			out = append(out, n)
		}
	}
	return out
}

func eLogf(format string, args ...interface{}) {
	fmt.Fprintf(os.Stderr, format+"\n", args...)
}

type eSummary struct {
	states, transitions int64
	exhaustive          bool
	completed           []string
	configs             []*eSearchResult
	outcomes            map[string]int64
	points              map[string]int64
	stats               map[string]int64
}

func eSummarise(rs []*eSearchResult) *eSummary {
	s := &eSummary{exhaustive: true, outcomes: map[string]int64{}, points: map[string]int64{}, stats: map[string]int64{}}
	for _, r := range rs {
		s.states += r.States
		s.transitions += r.Transitions
		if !r.Exhaustive {
			s.exhaustive = false
		}
		s.completed = append(s.completed, fmt.Sprintf("segment %d: depth %d of %d", r.Seg, r.DepthCompleted, r.DepthBound))
		for k, v := range r.Outcomes {
			s.outcomes[k] += v
		}
		for k, v := range r.Points {
			s.points[k] += v
		}
		for k, v := range r.Stats {
			if k == "max_dirty_pages" {
				if v > s.stats[k] {
					s.stats[k] = v
				}
				continue
			}
			s.stats[k] += v
		}
	}
	s.configs = rs
	return s
}

func eReport(run *vkRun, p *ePool, rs []*eSearchResult, maxDirty int) {
	seen := map[string]bool{}
	for _, r := range rs {
		for _, v := range r.viols {
			if seen[v.Key] {
				continue
			}
			seen[v.Key] = true
			if len(v.Ops) > 0 && !strings.HasPrefix(v.Key, "process-crash") {
				v = eShrink(p, v, eMid(v.Seg), maxDirty)
			}
			var n int64
			ctx := map[string]bool{}
			for _, r2 := range rs {
				n += r2.violCount[v.Key]
				for k := range r2.violCtx[v.Key] {
					ctx[k] = true
				}
			}
			var cs []string
			for k := range ctx {
				cs = append(cs, k)
			}
			sort.Strings(cs)
			v.Desc += fmt.Sprintf(" (observed in %d expansions; last op kinds: %s)", n, strings.Join(cs, ","))
			run.Violation(v.Key, v.Desc, v)
		}
	}
}

func eCheckC13(args []string) int {
	if f := vkArg(args, "replay", ""); f != "" {
		return eReplay("C13", f, eMid)
	}
	tier := vkTier(args)
	run := vkNewRun("C13", tier, "model_checking")
	// quick: depth 6 on the minimum segment size, depth 5 on the second size
	depth, segs, capS, depth2 := 6, []int{1024, 2048}, 0, 5
	if tier == "thorough" {
		depth, capS, depth2 = 7, 20*60, 7
	}
	if d := vkArgInt(args, "depth", 0); d > 0 {
		depth, depth2 = d, d
	}
	segs = eSegs(args, segs)
	capS = vkArgInt(args, "cap", capS)
	p := eNewPool()
	defer p.close()
	var rs []*eSearchResult
	start := time.Now()
	for i, seg := range segs {
		s := &eSearch{Check: "C13", Seg: seg, Mid: eMid(seg), MaxDepth: depth}
		if i > 0 {
			s.MaxDepth = depth2
		}
		if capS > 0 {
			// share the cap between the configurations still to run
			left := time.Duration(capS)*time.Second - time.Since(start)
			s.Deadline = time.Now().Add(left / time.Duration(len(segs)-i))
		}
		rs = append(rs, eBFS(p, s, eLogf))
	}
	eReport(run, p, rs, 3)
	sum := eSummarise(rs)
	var samples []interface{}
	for _, r := range rs {
		for _, ph := range r.paths {
			if len(samples) < 40 {
				samples = append(samples, fmt.Sprintf("seg=%d: %s", r.Seg, ph))
			}
		}
	}
	var outs []string
	for k := range sum.outcomes {
		outs = append(outs, k)
	}
	sort.Strings(outs)
	run.Cov["states"] = sum.states
	run.Cov["transitions"] = sum.transitions
	run.Cov["traces_validated_against_impl"] = sum.transitions
	run.Cov["traces_note"] = "every transition is one operation history replayed from Open on the real log.Log in a fresh directory and compared with the reference model at its end; there is no separate abstract model to validate"
	run.Cov["samples"] = samples
	run.Cov["exhaustive"] = sum.exhaustive
	run.Cov["bound"] = fmt.Sprintf("all histories of <= %d mutating ops (<= %d for the second segment size) over the alphabet, all reads in every state", depth, depth2)
	run.Cov["depth_completed"] = sum.completed
	run.Cov["distinct_outcomes"] = len(outs)
	run.Cov["outcomes"] = sum.outcomes
	run.Cov["hook_points_seen"] = sum.points
	run.Cov["reads_compared"] = sum.stats["reads"]
	run.Cov["views_checked"] = sum.stats["views_checked"]
	run.Cov["older_views_checked_after_later_appends"] = sum.stats["older_views_checked"]
	run.Cov["reader_steps_at_hook_points"] = sum.stats["reader_steps_at_hook_points"]
	run.Cov["getn_spanning_segments"] = sum.stats["getn_spanning_segments"]
	run.Cov["configs"] = sum.configs
	run.Cov["alphabet"] = "Append(size in {0,1,mid,fits-exactly,fits+1,SegmentSize-23}), Commit, CommitN(k in [prev..last+1]), RemoveLTE(i)/RemoveGTE(i) for i in [prev-1..last+2], Reset(0|last|last+2), Close+Open; ViewAt for every p<=l is opened in every state and held until the package declares views invalid"
	run.Cov["workers"] = p.n
	run.Assumptions = []string{
		"payload ids stay below 256 so that distinct payloads differ at every byte position",
		"views are dropped (not read) after RemoveLTE/RemoveGTE/Reset/Close, as documented by the package",
		"GetN with n=0 is not exercised (i+(n-1) underflows in the implementation; the documentation does not define it)",
		"reader steps run at the hook points of Append/Commit/CommitN, i.e. between the writer's stores, not between individual machine instructions",
	}
	if sum.stats["reader_steps_at_hook_points"] == 0 || sum.stats["getn_spanning_segments"] == 0 || sum.outcomes["append:rollover"] == 0 {
		fmt.Println("C13: VACUOUS RUN: no roll-over / cross-segment read / reader step was reached")
		run.Cov["exhaustive"] = false
		run.Cov["vacuous"] = true
	}
	return run.Finish()
}

func eCheckC14(args []string) int {
	if f := vkArg(args, "replay", ""); f != "" {
		return eReplay("C14", f, eMid)
	}
	tier := vkTier(args)
	run := vkNewRun("C14", tier, "fault_enumeration")
	depth, segs, capS, plDepth := 5, []int{8192, 12288}, 0, 0
	if tier == "thorough" {
		depth, capS, plDepth = 6, 30*60, 0
	}
	depth = vkArgInt(args, "depth", depth)
	segs = eSegs(args, segs)
	capS = vkArgInt(args, "cap", capS)
	plDepth = vkArgInt(args, "pldepth", plDepth)
	maxDirty := vkArgInt(args, "maxdirty", 3)
	p := eNewPool()
	defer p.close()
	var rs []*eSearchResult
	start := time.Now()
	for i, seg := range segs {
		s := &eSearch{Check: "C14", Seg: seg, Mid: eMid(seg), MaxDepth: depth, PLDepth: plDepth, MaxDirty: maxDirty}
		if capS > 0 {
			left := time.Duration(capS)*time.Second - time.Since(start)
			s.Deadline = time.Now().Add(left / time.Duration(len(segs)-i))
		}
		rs = append(rs, eBFS(p, s, eLogf))
	}
	eReport(run, p, rs, maxDirty)
	sum := eSummarise(rs)
	var samples []interface{}
	have := map[string]bool{}
	for _, r := range rs {
		for _, sm := range r.samples {
			k := fmt.Sprintf("%d|%s|%s|%v", r.Seg, sm.Point, sm.Model, len(sm.Pages) > 0)
			if have[k] || len(samples) >= 60 {
				continue
			}
			have[k] = true
			samples = append(samples, map[string]interface{}{"segment_size": r.Seg, "history": eOpsString(sm.Ops), "crash_point_in_last_op": sm.Point,
				"crash_model": sm.Model, "dirty_pages": sm.Dirty, "pages_flushed": sm.Pages, "reopened": sm.Result})
		}
	}
	imaged := map[string]int64{}
	for k, v := range sum.stats {
		if strings.HasPrefix(k, "imaged:") {
			imaged[strings.TrimPrefix(k, "imaged:")] = v
		}
	}
	run.Cov["evaluations"] = sum.stats["evaluations"]
	run.Cov["distinct_nontrivial"] = sum.stats["nontrivial"]
	run.Cov["rule"] = "one evaluation = one crash image written to a fresh directory, reopened with the real log.Open and checked; images are enumerated for every explored transition (distinct implementation state x op) at every hook point reached inside the op plus the quiescent point after it: the process-kill image and, where enabled, the last-msynced image with every subset of the 4 KiB pages dirtied since. Distinct = distinct (state, op, crash point, image hash); an image is trivial when it is byte-identical to the no-crash image before the op or after the completed op"
	run.Cov["samples"] = samples
	run.Cov["states"] = sum.states
	run.Cov["transitions"] = sum.transitions
	run.Cov["exhaustive"] = sum.exhaustive
	run.Cov["bound"] = fmt.Sprintf("all histories of <= %d mutating ops, crash inside the last one; power-loss images for last ops at depth >= %d; all page subsets up to %d dirty pages", depth, plDepth, maxDirty)
	run.Cov["depth_completed"] = sum.completed
	run.Cov["crash_points_seen"] = imaged
	run.Cov["crash_points_distinct"] = len(imaged)
	run.Cov["hook_points_passed_including_prefix_replays"] = sum.points
	run.Cov["images_kill"] = sum.stats["images_kill"]
	run.Cov["images_powerloss"] = sum.stats["images_powerloss"]
	run.Cov["page_subsets_truncated"] = sum.stats["subsets_truncated"]
	run.Cov["max_dirty_pages_at_a_point"] = sum.stats["max_dirty_pages"]
	run.Cov["tracker_anomalies"] = sum.stats["tracker_anomalies"]
	run.Cov["inflight_reset_or_removeGTE_below_prev_reopened_as_empty_log_at_0"] = sum.stats["inflight_removal_left_empty_log_at_0"]
	run.Cov["outcomes"] = sum.outcomes
	run.Cov["configs"] = sum.configs
	run.Cov["workers"] = p.n
	run.Assumptions = []string{
		"file creation, truncation and removal are atomic and durable when the call returns (the log never fsyncs its directory); only page contents are subject to loss",
		"msync(MS_SYNC) and the fsync done by mmap.openFile make the whole file durable; munmap and close do not",
		"the page cache may write back any subset of dirty 4 KiB pages at any time; a page is written atomically",
		"a kill does not interrupt a single copy()/8-byte store; crash points are the hook points between them",
		"an in-flight Reset, or RemoveGTE at or below PrevIndex, may leave the directory empty, which reopens as an empty log at index 0; the property does not constrain prevIndex there, so this is counted, not reported",
		"entries appended but not covered by a completed commit may be missing after a crash; an in-flight RemoveGTE/RemoveLTE/Reset may be applied, partially applied segment-wise, or not applied",
	}
	if sum.stats["images_powerloss"] == 0 || sum.points["sync.data"] == 0 || sum.points["create.created"] == 0 {
		fmt.Println("C14: VACUOUS RUN: no power-loss image / sync / segment creation was reached")
		run.Cov["exhaustive"] = false
		run.Cov["vacuous"] = true
	}
	return run.Finish()
}
