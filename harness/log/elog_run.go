// +build verif

package log

// E-LOG driver: worker subprocesses (the hooks are package globals and a read
// through an unmapped segment can kill a process, so every expansion runs in a
// worker), deterministic level-by-level breadth-first search, history replay
// and shrinking.

import (
	"bufio"
	"bytes"
	"encoding/json"
	"fmt"
	"io"
	"io/ioutil"
	"os"
	"os/exec"
	"path/filepath"
	"runtime"
	"runtime/debug"
	"sort"
	"sync"
	"sync/atomic"
	"time"
)

type eJob struct {
	ID        int    `json:"id"`
	Check     string `json:"check"`
	Kind      string `json:"kind"` // expand | history
	Seg       int    `json:"seg"`
	Mid       int    `json:"mid"`
	Path      []eOp  `json:"path"`
	OnlyOp    int    `json:"only_op"` // expand: index into the op list, -1 = all
	PL        bool   `json:"pl"`      // C14: power-loss images too
	MaxDirty  int    `json:"max_dirty"`
	Samples   bool   `json:"samples"`
	ImageOpen bool   `json:"image_open"` // history with no ops: crash inside the first Open
	Only      *eViol `json:"only,omitempty"`
}

type eSucc struct {
	Op      eOp    `json:"op"`
	Key     string `json:"key"`
	Outcome string `json:"outcome"`
	Bad     bool   `json:"bad,omitempty"`
}

type eRes struct {
	ID      int                 `json:"id"`
	Key     string              `json:"key,omitempty"`
	Succs   []eSucc             `json:"succs,omitempty"`
	Viols   []eViol             `json:"viols,omitempty"`
	Stats   map[string]int64    `json:"stats,omitempty"`
	Points  map[string]int64    `json:"points,omitempty"`
	Samples []eSample           `json:"samples,omitempty"`
	Ctx     map[string][]string `json:"ctx,omitempty"` // violation key -> kinds of the op it was seen in
	Err     string              `json:"err,omitempty"`
}

func (r *eRes) merge(w *eWorld) {
	if r.Stats == nil {
		r.Stats = map[string]int64{}
		r.Points = map[string]int64{}
	}
	for k, v := range w.stats {
		r.Stats[k] += v
	}
	for k, v := range w.points {
		r.Points[k] += v
	}
	if t := w.tr; t != nil {
		r.Stats["evaluations"] += t.evals
		r.Stats["nontrivial"] += t.nontrivial
		r.Stats["subsets_truncated"] += t.truncated
		r.Stats["tracker_anomalies"] += t.anomalies
		r.Stats["inflight_removal_left_empty_log_at_0"] += t.emptyPrev0
		if int64(t.maxDirtySeen) > r.Stats["max_dirty_pages"] {
			r.Stats["max_dirty_pages"] = int64(t.maxDirtySeen)
		}
		r.Samples = append(r.Samples, t.samples...)
	}
	have := map[string]bool{}
	for _, v := range r.Viols {
		have[v.Key] = true
	}
	for _, v := range w.viols {
		if r.Ctx == nil {
			r.Ctx = map[string][]string{}
		}
		kind := "open"
		if len(v.Ops) > 0 {
			kind = v.Ops[len(v.Ops)-1].K
		}
		dup := false
		for _, k := range r.Ctx[v.Key] {
			dup = dup || k == kind
		}
		if !dup {
			r.Ctx[v.Key] = append(r.Ctx[v.Key], kind)
		}
		if !have[v.Key] {
			have[v.Key] = true
			r.Viols = append(r.Viols, v)
		}
	}
}

func eModelAfter(seg int, path []eOp) *eModel {
	m := eNewModel(seg)
	for _, op := range path {
		m.apply(op)
	}
	return m
}

// eRunJob executes one job in this process.
func eRunJob(job *eJob, dir string) *eRes {
	res := &eRes{ID: job.ID}
	newTracker := func() *eTracker {
		if job.Check != "C14" {
			return nil
		}
		t := eNewTracker(dir+".img", job.PL, job.MaxDirty)
		t.only = job.Only
		t.noSamples = !job.Samples
		return t
	}
	finish := func(w *eWorld) {
		res.merge(w)
		w.destroy()
	}
	switch job.Kind {
	case "history":
		tr := newTracker()
		last := len(job.Path) - 1
		w := eNewWorld(job.Check, job.Seg, job.Mid, dir, tr, job.ImageOpen && last < 0)
		if job.Check == "C13" {
			w.evalState()
		}
		for i, op := range job.Path {
			if tr != nil {
				tr.imageNext = i == last
			}
			w.step(op, job.Check == "C13")
			if job.Check == "C14" && !w.dead {
				w.checkLayout()
			}
		}
		res.Key = w.stateKey()
		finish(w)
	case "expand":
		ops := eModelAfter(job.Seg, job.Path).ops(job.Mid)
		for idx, op := range ops {
			if job.OnlyOp >= 0 && idx != job.OnlyOp {
				continue
			}
			tr := newTracker()
			w := eNewWorld(job.Check, job.Seg, job.Mid, dir, tr, false)
			for _, p := range job.Path {
				w.step(p, false)
			}
			if tr != nil {
				tr.imageNext = true
			}
			w.step(op, job.Check == "C13")
			if job.Check == "C14" && !w.dead {
				w.checkLayout()
				w.checkReads("log", w.l, w.m.prev, w.m.last(), 0)
			}
			res.Succs = append(res.Succs, eSucc{Op: op, Key: w.stateKey(), Outcome: w.outcome, Bad: w.stateBad || w.dead})
			finish(w)
		}
	}
	return res
}

// eWorkerMain: `vlog elog-worker <scratch dir>`; jobs as JSON lines on stdin.
func eWorkerMain(args []string) int {
	if len(args) < 1 {
		return 2
	}
	dir := args[0]
	debug.SetPanicOnFault(true)
	eInstallHooks()
	in := bufio.NewReaderSize(os.Stdin, 1<<20)
	out := bufio.NewWriterSize(os.Stdout, 1<<20)
	dec := json.NewDecoder(in)
	enc := json.NewEncoder(out)
	for {
		var job eJob
		if err := dec.Decode(&job); err != nil {
			return 0
		}
		res := eRunJob(&job, filepath.Join(dir, "w"))
		if err := enc.Encode(res); err != nil {
			return 1
		}
		out.Flush()
	}
}

func init() {
	vkCommands["elog-worker"] = eWorkerMain
}

type eProc struct {
	cmd    *exec.Cmd
	in     io.WriteCloser
	enc    *json.Encoder
	dec    *json.Decoder
	stderr *bytes.Buffer
	dir    string
}

type ePool struct {
	n    int
	root string
	mu   sync.Mutex
	seq  int
}

func eNewPool() *ePool {
	n := runtime.NumCPU()
	if n > 16 {
		n = 16
	}
	if v := os.Getenv("VERIF_WORKERS"); v != "" {
		fmt.Sscan(v, &n)
	}
	if n < 1 {
		n = 1
	}
	return &ePool{n: n, root: vkScratch("elog")}
}

func (p *ePool) close() { _ = os.RemoveAll(p.root) }

func (p *ePool) spawn() (*eProc, error) {
	p.mu.Lock()
	p.seq++
	dir := filepath.Join(p.root, fmt.Sprintf("p%d", p.seq))
	p.mu.Unlock()
	if err := os.MkdirAll(dir, 0700); err != nil {
		return nil, err
	}
	exe, err := os.Executable()
	if err != nil {
		return nil, err
	}
	cmd := exec.Command(exe, "elog-worker", dir)
	in, err := cmd.StdinPipe()
	if err != nil {
		return nil, err
	}
	outp, err := cmd.StdoutPipe()
	if err != nil {
		return nil, err
	}
	eb := &bytes.Buffer{}
	cmd.Stderr = eb
	if err := cmd.Start(); err != nil {
		return nil, err
	}
	return &eProc{cmd: cmd, in: in, enc: json.NewEncoder(in), dec: json.NewDecoder(bufio.NewReaderSize(outp, 1<<20)), stderr: eb, dir: dir}, nil
}

func (pr *eProc) stop() {
	_ = pr.in.Close()
	_ = pr.cmd.Wait()
	_ = os.RemoveAll(pr.dir)
}

func (pr *eProc) kill() string {
	_ = pr.in.Close()
	_ = pr.cmd.Process.Kill()
	_ = pr.cmd.Wait()
	_ = os.RemoveAll(pr.dir)
	s := pr.stderr.String()
	if len(s) > 600 {
		s = s[:600]
	}
	return s
}

func (pr *eProc) do(job *eJob) (*eRes, error) {
	if err := pr.enc.Encode(job); err != nil {
		return nil, err
	}
	var res eRes
	if err := pr.dec.Decode(&res); err != nil {
		return nil, err
	}
	return &res, nil
}

// run executes the jobs on the pool; results are indexed like jobs.  It stops
// handing out jobs after the deadline (complete=false then).
func (p *ePool) run(jobs []eJob, deadline time.Time) ([]*eRes, bool) {
	res := make([]*eRes, len(jobs))
	var next int64
	var expired int32
	var wg sync.WaitGroup
	n := p.n
	if n > len(jobs) {
		n = len(jobs)
	}
	for k := 0; k < n; k++ {
		wg.Add(1)
		go func() {
			defer wg.Done()
			var pr *eProc
			defer func() {
				if pr != nil {
					pr.stop()
				}
			}()
			for {
				if !deadline.IsZero() && time.Now().After(deadline) {
					atomic.StoreInt32(&expired, 1)
					return
				}
				i := int(atomic.AddInt64(&next, 1) - 1)
				if i >= len(jobs) {
					return
				}
				if pr == nil {
					var err error
					if pr, err = p.spawn(); err != nil {
						res[i] = &eRes{ID: jobs[i].ID, Err: "spawn: " + err.Error()}
						pr = nil
						continue
					}
				}
				r, err := pr.do(&jobs[i])
				if err != nil {
					msg := pr.kill()
					pr = nil
					res[i] = &eRes{ID: jobs[i].ID, Err: "worker died: " + err.Error() + ": " + msg}
					continue
				}
				res[i] = r
			}
		}()
	}
	wg.Wait()
	done := atomic.LoadInt32(&expired) == 0
	for _, r := range res {
		if r == nil {
			done = false
		}
	}
	return res, done
}

func (p *ePool) one(job eJob) *eRes {
	r, _ := p.run([]eJob{job}, time.Time{})
	return r[0]
}

// ---------------------------------------------------------------------------

type eSearch struct {
	Check    string
	Seg, Mid int
	MaxDepth int
	Deadline time.Time
	PLDepth  int // C14: power-loss images for transitions at depth >= PLDepth
	MaxDirty int
}

type eSearchResult struct {
	Seg             int              `json:"segment_size"`
	DepthBound      int              `json:"depth_bound"`
	DepthCompleted  int              `json:"depth_completed"`
	Exhaustive      bool             `json:"exhaustive_within_bound"`
	States          int64            `json:"states"`
	Transitions     int64            `json:"transitions"`
	StatesPerDepth  []int64          `json:"new_states_per_depth"`
	TransPerDepth   []int64          `json:"transitions_per_depth"`
	Outcomes        map[string]int64 `json:"outcomes"`
	Stats           map[string]int64 `json:"stats"`
	Points          map[string]int64 `json:"hook_points_seen"`
	WallS           float64          `json:"wall_s"`
	PrunedViolating int64            `json:"states_not_expanded_because_violating"`
	viols           []eViol
	violCount       map[string]int64
	violCtx         map[string]map[string]bool
	samples         []eSample
	paths           []string
}

type eNode struct{ path []eOp }

func (s *eSearch) job(id int, kind string, path []eOp) eJob {
	return eJob{ID: id, Check: s.Check, Kind: kind, Seg: s.Seg, Mid: s.Mid, Path: path, OnlyOp: -1, MaxDirty: s.MaxDirty}
}

func eBFS(p *ePool, s *eSearch, logf func(string, ...interface{})) *eSearchResult {
	start := time.Now()
	R := &eSearchResult{Seg: s.Seg, DepthBound: s.MaxDepth, Exhaustive: true,
		Outcomes: map[string]int64{}, Stats: map[string]int64{}, Points: map[string]int64{}}
	violSeen := map[string]bool{}
	R.violCount = map[string]int64{}
	R.violCtx = map[string]map[string]bool{}
	absorb := func(r *eRes) {
		for k, v := range r.Stats {
			if k == "max_dirty_pages" {
				if v > R.Stats[k] {
					R.Stats[k] = v
				}
				continue
			}
			R.Stats[k] += v
		}
		for k, v := range r.Points {
			R.Points[k] += v
		}
		for _, v := range r.Viols {
			R.violCount[v.Key]++
			if R.violCtx[v.Key] == nil {
				R.violCtx[v.Key] = map[string]bool{}
			}
			for _, k := range r.Ctx[v.Key] {
				R.violCtx[v.Key][k] = true
			}
			if !violSeen[v.Key] {
				violSeen[v.Key] = true
				R.viols = append(R.viols, v)
			}
		}
		for _, sm := range r.Samples {
			if len(R.samples) < 400 {
				R.samples = append(R.samples, sm)
			}
		}
	}
	// root: Open on an empty directory (with crash images of that Open for C14)
	rj := s.job(0, "history", nil)
	rj.ImageOpen = true
	rj.PL = true
	rj.Samples = true
	root := p.one(rj)
	if root.Err != "" {
		R.viols = append(R.viols, eViol{Key: "process-crash:open", Desc: root.Err, Check: s.Check, Seg: s.Seg})
		R.Exhaustive = false
		return R
	}
	absorb(root)
	visited := map[string]struct{}{root.Key: {}}
	R.States = 1
	R.StatesPerDepth = []int64{1}
	R.TransPerDepth = []int64{0}
	frontier := []eNode{{}}
	for d := 1; d <= s.MaxDepth && len(frontier) > 0; d++ {
		jobs := make([]eJob, len(frontier))
		for i, n := range frontier {
			jobs[i] = s.job(i, "expand", n.path)
			jobs[i].PL = d >= s.PLDepth
			jobs[i].Samples = i < 40 || i%997 == 0
		}
		results, complete := p.run(jobs, s.Deadline)
		var next []eNode
		var newStates, trans int64
		for i, r := range results {
			if r == nil {
				continue
			}
			if r.Err != "" {
				// a worker died: pin down the op by running them one by one
				ops := eModelAfter(s.Seg, frontier[i].path).ops(s.Mid)
				merged := &eRes{ID: i}
				for k := range ops {
					j := jobs[i]
					j.OnlyOp = k
					r1 := p.one(j)
					if r1.Err != "" {
						hist := append(append([]eOp(nil), frontier[i].path...), ops[k])
						key := "process-crash:@" + ops[k].K
						if !violSeen[key] {
							violSeen[key] = true
							R.viols = append(R.viols, eViol{Key: key, Desc: "the process executing the history died: " + r1.Err, Check: s.Check, Seg: s.Seg, Ops: hist})
						}
						trans++
						continue
					}
					absorb(r1)
					merged.Succs = append(merged.Succs, r1.Succs...)
				}
				r = merged
			} else {
				absorb(r)
			}
			for _, sc := range r.Succs {
				trans++
				R.Outcomes[sc.Outcome]++
				if _, ok := visited[sc.Key]; ok {
					continue
				}
				visited[sc.Key] = struct{}{}
				newStates++
				path := append(append(make([]eOp, 0, len(frontier[r.ID].path)+1), frontier[r.ID].path...), sc.Op)
				if len(R.paths) < 12 || (newStates%5003 == 0 && len(R.paths) < 40) {
					R.paths = append(R.paths, eOpsString(path)+" => "+sc.Outcome)
				}
				if sc.Bad {
					R.PrunedViolating++
					continue
				}
				if d < s.MaxDepth {
					next = append(next, eNode{path})
				}
			}
		}
		R.States += newStates
		R.Transitions += trans
		R.StatesPerDepth = append(R.StatesPerDepth, newStates)
		R.TransPerDepth = append(R.TransPerDepth, trans)
		if !complete {
			R.Exhaustive = false
			logf("%s seg=%d depth %d INCOMPLETE (time cap): %d transitions of this level done, total states=%d", s.Check, s.Seg, d, trans, R.States)
			break
		}
		R.DepthCompleted = d
		logf("%s seg=%d depth %d complete: frontier=%d transitions=%d new states=%d total states=%d violations=%d (%.1fs)",
			s.Check, s.Seg, d, len(frontier), trans, newStates, R.States, len(R.viols), time.Since(start).Seconds())
		frontier = next
	}
	R.WallS = float64(int(time.Since(start).Seconds()*10)) / 10
	return R
}

// eShrink drops ops from the history of v while a violation with the same key
// is still observed (the last op, the in-flight one for C14, is kept).
func eShrink(p *ePool, v eViol, mid, maxDirty int) eViol {
	try := func(ops []eOp) (eViol, bool) {
		j := eJob{Check: v.Check, Kind: "history", Seg: v.Seg, Mid: mid, Path: ops, OnlyOp: -1, PL: true, MaxDirty: maxDirty, ImageOpen: true}
		r := p.one(j)
		for _, x := range r.Viols {
			if x.Key == v.Key {
				return x, true
			}
		}
		return eViol{}, false
	}
	best := v
	for changed := true; changed; {
		changed = false
		for i := 0; i < len(best.Ops)-1; i++ {
			ops := append(append([]eOp(nil), best.Ops[:i]...), best.Ops[i+1:]...)
			if x, ok := try(ops); ok {
				best = x
				changed = true
				break
			}
		}
	}
	// C13 violations are observed in a state: also try dropping the last op
	if v.Check == "C13" {
		for len(best.Ops) > 0 {
			if x, ok := try(best.Ops[:len(best.Ops)-1]); ok {
				best = x
			} else {
				break
			}
		}
	}
	return best
}

// eReplay re-runs one recorded history twice in this process.
func eReplay(check, file string, mid func(seg int) int) int {
	b, err := ioutil.ReadFile(file)
	if err != nil {
		fmt.Println("replay:", err)
		return 2
	}
	var art struct {
		Key    string `json:"key"`
		Replay eViol  `json:"replay"`
	}
	if err := json.Unmarshal(b, &art); err != nil || art.Replay.Key == "" {
		var v eViol
		if err2 := json.Unmarshal(b, &v); err2 != nil || v.Key == "" {
			fmt.Println("replay: cannot parse", file, err)
			return 2
		}
		art.Replay = v
	}
	v := art.Replay
	if v.Check != check {
		fmt.Printf("replay: artefact belongs to %s, not %s\n", v.Check, check)
		return 2
	}
	debug.SetPanicOnFault(true)
	eInstallHooks()
	root := vkScratch("elog-replay")
	defer os.RemoveAll(root)
	hits := 0
	desc := ""
	for run := 0; run < 2; run++ {
		only := v
		j := eJob{Check: check, Kind: "history", Seg: v.Seg, Mid: mid(v.Seg), Path: v.Ops, OnlyOp: -1, PL: true, MaxDirty: 3, ImageOpen: true}
		if check == "C14" && v.Point != "" {
			j.Only = &only
		}
		r := eRunJob(&j, filepath.Join(root, fmt.Sprintf("r%d", run)))
		var keys []string
		for _, x := range r.Viols {
			keys = append(keys, x.Key)
			if x.Key == v.Key {
				hits++
				desc = x.Desc
			}
		}
		sort.Strings(keys)
		fmt.Printf("replay run %d: history %q point=%q model=%q pages=%v -> violations %v\n", run+1, eOpsString(v.Ops), v.Point, v.Model, v.Pages, keys)
	}
	if hits == 2 {
		fmt.Printf("VIOLATION property=%s replay=%s\n  key=%s reproduced 2/2: %s\n", check, file, v.Key, desc)
		return 1
	}
	fmt.Printf("NOT-REPRODUCED property=%s key=%s (%d/2 runs)\n", check, v.Key, hits)
	return 0
}
