// +build verif

package log

// Diagnostic (not a check): `vlog elog-dangling-demo` shows what openSegments
// does with two dangling segment files.  Such a directory is not reachable in
// the C14 fault model (directory operations are assumed durable), which is why
// C14 cannot observe it; the demo documents design suspect D9.

import (
	"fmt"
	"os"
)

func init() {
	vkCommands["elog-dangling-demo"] = func(args []string) int {
		dir := vkScratch("elog-demo")
		defer os.RemoveAll(dir)
		opt := Options{FileMode: 0600, SegmentSize: 1024}
		l, err := Open(dir, 0700, opt)
		if err != nil {
			fmt.Println(err)
			return 2
		}
		_ = l.Append([]byte("one"))
		_ = l.Close()
		// two stale segments that do not continue 0.log (which ends at 1)
		for _, prev := range []uint64{3, 5} {
			s, err := openSegment(dir, prev, opt)
			if err != nil {
				fmt.Println(err)
				return 2
			}
			s.append([]byte(fmt.Sprintf("stale-entry-of-%d.log", prev)))
			_ = s.close()
		}
		fmt.Println("before Open:", eListDir(dir))
		l, err = Open(dir, 0700, opt)
		fmt.Println("after first Open:", eListDir(dir), "err:", err, "log:", l.PrevIndex(), l.LastIndex())
		for l.LastIndex() < 5 {
			_ = l.Append(make([]byte, 900)) // one entry per segment
		}
		before := l.LastIndex()
		_ = l.Append(make([]byte, 900)) // rolls over into the stale 5.log
		b, _ := l.Get(6)
		fmt.Printf("LastIndex %d -> one Append -> LastIndex %d; Get(6)=%q (never appended to this log); files %v\n", before, l.LastIndex(), b, eListDir(dir))
		_ = l.Close()
		return 0
	}
}
