// +build verif

package log

// E-LOG reference model: a boring abstract sequence (slice of payload ids and
// sizes plus prevIndex) together with the segment layout implied by the
// documented roll-over rule (doc.go "On Disk Structure"/"Appending Entries").
// Nothing in this file touches the real log.

import (
	"fmt"
	"strings"
)

const (
	eAppend    = "append"
	eCommit    = "commit"
	eCommitN   = "commitN"
	eRemoveLTE = "removeLTE"
	eRemoveGTE = "removeGTE"
	eReset     = "reset"
	eReopen    = "reopen"
)

// eOp is one mutating operation of the alphabet.  A is the entry size for
// append and the index argument for the others.
type eOp struct {
	K string `json:"k"`
	A uint64 `json:"a"`
}

func (o eOp) String() string {
	switch o.K {
	case eCommit, eReopen:
		return o.K
	}
	return fmt.Sprintf("%s(%d)", o.K, o.A)
}

func eOpsString(ops []eOp) string {
	var s []string
	for _, o := range ops {
		s = append(s, o.String())
	}
	return strings.Join(s, " ")
}

type eEnt struct {
	id   int // ordinal of the Append call in the history (unique payload)
	size int
}

// eSeg is the model's idea of one segment file.
type eSeg struct {
	prev   uint64
	n      int
	fsize  int // file size
	dsize  int // bytes of entry data
	synced int
}

func (s eSeg) last() uint64 { return s.prev + uint64(s.n) }

// available mirrors the documented layout: data grows from the front, the
// header (8B) and n+1 offsets (8B each) from the back; a new entry needs its
// bytes plus one more offset.
func (s eSeg) available() int { return s.fsize - 8 - 8*(s.n+1) - 8 - s.dsize }

type eModel struct {
	base   int // Options.SegmentSize given to Open
	opt    int // current l.opt.SegmentSize (grows with oversized entries until reopen)
	prev   uint64
	ents   []eEnt
	segs   []eSeg
	nextID int
	// floor: every index in (prev, floor] is covered by a completed commit
	// (explicit or implicit) and has not been removed since.  Used by C14.
	floor uint64
}

func eNewModel(base int) *eModel {
	return &eModel{base: base, opt: base, segs: []eSeg{{fsize: base}}, nextID: 1}
}

func (m *eModel) clone() *eModel {
	c := *m
	c.ents = append([]eEnt(nil), m.ents...)
	c.segs = append([]eSeg(nil), m.segs...)
	return &c
}

func (m *eModel) last() uint64 { return m.prev + uint64(len(m.ents)) }

func (m *eModel) ent(i uint64) (eEnt, bool) {
	if i <= m.prev || i > m.last() {
		return eEnt{}, false
	}
	return m.ents[i-m.prev-1], true
}

func (m *eModel) check() {
	n := 0
	for i, s := range m.segs {
		if i == 0 && s.prev != m.prev {
			panic("model: first segment prev != prev")
		}
		if i > 0 && (m.segs[i-1].last() != s.prev || m.segs[i-1].n == 0) {
			panic("model: segments not chained")
		}
		d := 0
		for j := 0; j < s.n; j++ {
			d += m.ents[n+j].size
		}
		if d != s.dsize {
			panic("model: dsize")
		}
		n += s.n
	}
	if n != len(m.ents) {
		panic("model: entry count")
	}
}

// canLTE is the documented answer of CanLTE(i): the prevIndex the log would
// have after RemoveLTE(i) (only whole segments before the last one go).
func (m *eModel) canLTE(i uint64) uint64 {
	k := 0
	for k < len(m.segs)-1 && m.segs[k].n > 0 && m.segs[k].last() <= i {
		k++
	}
	return m.segs[k].prev
}

func (m *eModel) commitAll() {
	for i := range m.segs {
		m.segs[i].synced = m.segs[i].n
	}
	m.floor = m.last()
}

// truncateTo keeps entries with index < i (i > prev) in content and layout.
func (m *eModel) truncEnts(i uint64) {
	m.ents = m.ents[:i-m.prev-1]
}

// apply executes op on the model.  It returns a short outcome class (for
// coverage) and the error the real call is documented to return.
func (m *eModel) apply(op eOp) (string, error) {
	defer m.check()
	switch op.K {
	case eAppend:
		size := int(op.A)
		id := m.nextID
		m.nextID++
		out := "append:fits"
		l := &m.segs[len(m.segs)-1]
		if l.available() < size {
			if l.n == 0 {
				return "append:exceeds-empty-segment", ErrExceedsSegmentSize
			}
			out = "append:rollover"
			if size > m.opt-24 {
				m.opt = size + 24
				out = "append:rollover+grow"
			}
			m.commitAll()
			m.segs = append(m.segs, eSeg{prev: m.last(), fsize: m.opt})
			l = &m.segs[len(m.segs)-1]
		}
		l.n++
		l.dsize += size
		m.ents = append(m.ents, eEnt{id, size})
		return out, nil
	case eCommit:
		l := m.segs[len(m.segs)-1]
		out := "commit:clean"
		if l.synced < l.n {
			out = "commit:sync"
		}
		m.commitAll()
		return out, nil
	case eCommitN:
		l := &m.segs[len(m.segs)-1]
		k := op.A
		if l.synced < l.n {
			if l.prev < k {
				m.commitAll()
				return "commitN:sync", nil
			}
			// entries <= k live in earlier (already committed) segments
			if k > m.floor {
				m.floor = k
			}
			return "commitN:skip-dirty-tail", nil
		}
		m.floor = m.last()
		return "commitN:clean", nil
	case eRemoveLTE:
		m.commitAll()
		k := 0
		for len(m.segs) > 1 && m.segs[0].n > 0 && m.segs[0].last() <= op.A {
			m.ents = m.ents[m.segs[0].n:]
			m.segs = m.segs[1:]
			m.prev = m.segs[0].prev
			k++
		}
		return fmt.Sprintf("removeLTE:segments=%d", k), nil
	case eRemoveGTE:
		m.commitAll()
		i := op.A
		switch {
		case i > m.last():
			return "removeGTE:noop", nil
		case i > m.prev:
			// abstract: keep entries < i
			dropped := 0
			for len(m.segs) > 1 && m.segs[len(m.segs)-1].prev+1 >= i {
				m.segs = m.segs[:len(m.segs)-1]
				dropped++
			}
			m.truncEnts(i)
			l := &m.segs[len(m.segs)-1]
			n := int(i - l.prev - 1)
			out := "removeGTE:whole-segments"
			if n < l.n {
				out = "removeGTE:truncate"
				if n == 0 {
					out = "removeGTE:clear-first"
				}
				l.n = n
				l.dsize = 0
				for _, e := range m.ents[len(m.ents)-n:] {
					l.dsize += e.size
				}
				l.synced = n
			}
			m.floor = m.last()
			return fmt.Sprintf("%s,dropped=%d", out, dropped), nil
		default:
			// i <= prev: everything goes and the log restarts at i-1
			dropped := len(m.segs)
			if i > 0 {
				i--
			}
			m.ents = nil
			m.prev = i
			m.segs = []eSeg{{prev: i, fsize: m.opt}}
			m.floor = i
			return fmt.Sprintf("removeGTE:recreate,dropped=%d", dropped), nil
		}
	case eReset:
		m.ents = nil
		m.prev = op.A
		m.segs = []eSeg{{prev: op.A, fsize: m.opt}}
		m.floor = op.A
		return "reset", nil
	case eReopen:
		m.commitAll()
		m.opt = m.base
		return fmt.Sprintf("reopen:segments=%d", len(m.segs)), nil
	}
	panic("unknown op " + op.K)
}

// invalidatesViews: views are documented invalid after these (doc.go "Views",
// Get/GetN comments).
func (o eOp) invalidatesViews() bool {
	switch o.K {
	case eRemoveLTE, eRemoveGTE, eReset, eReopen:
		return true
	}
	return false
}

// ops enumerates the alphabet in this state, simplest first.  mid is the
// "ordinary" entry size (300 for 1 KiB segments, 3000 for page-sized ones).
func (m *eModel) ops(mid int) []eOp {
	var out []eOp
	seen := map[eOp]bool{}
	add := func(k string, a uint64) {
		o := eOp{k, a}
		if !seen[o] {
			seen[o] = true
			out = append(out, o)
		}
	}
	av := m.segs[len(m.segs)-1].available()
	add(eAppend, 0)
	add(eAppend, 1)
	add(eAppend, uint64(mid))
	if av >= 0 {
		add(eAppend, uint64(av)) // fits exactly
	}
	if av+1 >= 0 {
		add(eAppend, uint64(av+1)) // one byte too many: forces roll-over
	}
	add(eAppend, uint64(m.opt-24+1)) // larger than any fresh segment: grows SegmentSize
	add(eCommit, 0)
	last := m.last()
	for k := m.prev; k <= last+1; k++ {
		add(eCommitN, k)
	}
	lo := m.prev
	if lo > 0 {
		lo--
	}
	for i := lo; i <= last+2; i++ {
		add(eRemoveLTE, i)
	}
	for i := lo; i <= last+2; i++ {
		add(eRemoveGTE, i)
	}
	add(eReset, 0)
	add(eReset, last)
	add(eReset, last+2)
	add(eReopen, 0)
	return out
}

// ePayload is the unique payload of the id-th Append: distinct ids differ at
// every byte position (53 is odd, ids stay below 256), so mixing, tearing and
// resurrection are visible at any offset.
func ePayload(id, size int) []byte {
	b := make([]byte, size)
	base := byte(id * 53)
	for j := range b {
		b[j] = base + byte(j) + byte(j>>8)*3
	}
	return b
}

func (m *eModel) payload(i uint64) []byte {
	e, ok := m.ent(i)
	if !ok {
		return nil
	}
	return ePayload(e.id, e.size)
}

func (m *eModel) concat(i, n uint64) []byte {
	var b []byte
	for j := i; j < i+n; j++ {
		b = append(b, m.payload(j)...)
	}
	return b
}

// canon is the canonical text of the model state (part of the dedup key).
func (m *eModel) canon() string {
	var sb strings.Builder
	fmt.Fprintf(&sb, "p%d o%d f%d e", m.prev, m.opt, m.floor)
	for _, e := range m.ents {
		fmt.Fprintf(&sb, "[%d:%d]", e.id, e.size)
	}
	sb.WriteString(" s")
	for _, s := range m.segs {
		fmt.Fprintf(&sb, "(%d,%d,%d,%d,%d)", s.prev, s.n, s.fsize, s.dsize, s.synced)
	}
	return sb.String()
}
