// +build verif

package log

import (
	"fmt"
	"os"
	"sync"
)

// Used by the harness of package raft (E-SIM): turns "read through a segment
// that was already unmapped" - a SIGSEGV in production - into a recognisable
// process exit (the explorer's coordinator maps the exit status to a finding
// with the event history as replay artefact).

// VerifClosedReadExit is the exit status of a worker that read through an
// unmapped segment.
const VerifClosedReadExit = 97

var (
	verifClosedMu sync.Mutex
	verifClosed   map[*segment]string
)

// VerifGuardClosedReads installs the guard.  It must not be combined with
// other users of the segClosed/segGet hooks in the same process.
func VerifGuardClosedReads() {
	verifClosedMu.Lock()
	verifClosed = map[*segment]string{}
	verifClosedMu.Unlock()
	verifHooks.segClosed = func(s *segment) {
		verifClosedMu.Lock()
		if len(verifClosed) > 200000 {
			verifClosed = map[*segment]string{}
		}
		verifClosed[s] = s.file.Name()
		verifClosedMu.Unlock()
	}
	verifHooks.segGet = func(s *segment) {
		verifClosedMu.Lock()
		name, bad := verifClosed[s]
		verifClosedMu.Unlock()
		if bad {
			fmt.Fprintf(os.Stderr, "VERIF-CLOSED-READ: Log.Get/GetN through segment %s (prevIndex %d) after it was unmapped\n", name, s.prevIndex)
			if VerifOnClosedRead != nil {
				VerifOnClosedRead(name)
			}
			os.Exit(VerifClosedReadExit)
		}
	}
}

// VerifOnClosedRead, when set, is called before the process exits.
var VerifOnClosedRead func(segment string)
