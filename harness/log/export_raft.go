// +build verif

package log

import (
	"fmt"
	"os"
	"path/filepath"
	"runtime"
	"strings"
	"sync"
)

// Used by the harness of package raft (E-SIM): turns "read through a segment
// that was already unmapped" - a SIGSEGV in production - into a recognisable
// process exit (the explorer's coordinator maps the exit status to a finding
// with the event history as replay artefact).

// VerifClosedReadExit is the exit status of a worker that read through an
// unmapped segment.
const VerifClosedReadExit = 97

var (
	verifClosedMu sync.Mutex
	verifClosed   map[*segment]string
)

// VerifGuardClosedReads installs the guard.  It must not be combined with
// other users of the segClosed/segGet hooks in the same process.
func VerifGuardClosedReads() {
	verifClosedMu.Lock()
	verifClosed = map[*segment]string{}
	verifClosedMu.Unlock()
	verifHooks.segClosed = func(s *segment) {
		verifClosedMu.Lock()
		if len(verifClosed) > 200000 {
			verifClosed = map[*segment]string{}
		}
		verifClosed[s] = s.file.Name()
		verifClosedMu.Unlock()
	}
	verifHooks.segGet = func(s *segment) {
		verifClosedMu.Lock()
		name, bad := verifClosed[s]
		verifClosedMu.Unlock()
		if bad {
			fmt.Fprintf(os.Stderr, "VERIF-CLOSED-READ: Log.Get/GetN through segment %s (prevIndex %d) after it was unmapped\n%s\n", name, s.prevIndex, verifShortStack())
			if VerifOnClosedRead != nil {
				VerifOnClosedRead(name)
			}
			os.Exit(VerifClosedReadExit)
		}
	}
}

// VerifOnClosedRead, when set, is called before the process exits.
var VerifOnClosedRead func(segment string)

// verifShortStack returns the function names of the reading goroutine's stack.
func verifShortStack() string {
	buf := make([]byte, 1<<14)
	buf = buf[:runtime.Stack(buf, false)]
	var out []string
	for _, l := range strings.Split(string(buf), "\n") {
		if l == "" || l[0] == '\t' || strings.HasPrefix(l, "goroutine ") || strings.HasPrefix(l, "runtime") {
			continue
		}
		if i := strings.LastIndex(l, "("); i > 0 {
			l = l[:i]
		}
		out = append(out, strings.TrimPrefix(l, "github.com/santhosh-tekuri/raft"))
		if len(out) >= 12 {
			break
		}
	}
	return "  read by: " + strings.Join(out, " < ")
}

// VerifSetPointHook lets the raft harness (E-SIM) see the structural storage
// points inside the log package - segment creation, roll-over, removal,
// truncation, reset - as crash points of the node that owns the directory.
// Append and flush points are left out: the raft-level points log.appended /
// log.flushed stand for them and E-LOG enumerates them at the package level.
func VerifSetPointHook(fn func(name, dir string)) {
	verifHooks.point = func(name string, s *segment) {
		if strings.HasPrefix(name, "append.") || strings.HasPrefix(name, "sync.") {
			return
		}
		if s == nil || s.file == nil {
			fn("log:"+name, "") // segment creation: the file is not attached to a segment yet
			return
		}
		fn("log:"+name, filepath.Dir(s.file.Name()))
	}
}
