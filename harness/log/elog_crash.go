// +build verif

package log

// E-LOG crash mode (C14): durable-image tracking at the hook points, crash
// image construction (process kill, power loss with every subset of dirty
// 4 KiB pages) and the oracle applied to each image reopened with log.Open.

import (
	"bytes"
	"fmt"
	"io/ioutil"
	"os"
	"path/filepath"
	"sort"
	"strings"
)

const ePageSize = 4096

type eSample struct {
	Ops    []eOp   `json:"ops"`
	Point  string  `json:"crash_point"`
	Model  string  `json:"crash_model"`
	Pages  []ePage `json:"pages_flushed,omitempty"`
	Dirty  int     `json:"dirty_pages"`
	Result string  `json:"reopened"`
}

type eTracker struct {
	w        *eWorld
	imgDir   string
	durable  map[string][]byte // last image of each file known to be on stable storage
	creating string

	imageNext bool // image the next op (set by the driver before the last op)
	powerloss bool // also build power-loss images
	maxDirty  int  // all subsets up to this many dirty pages

	// current op
	imaging   bool
	pre, post *eModel
	op        eOp
	floor     uint64
	preHash   string
	seen      map[string]bool   // point|hash evaluated in this op
	classes   map[string]string // point|hash -> hash (for the nontrivial count)
	lastKill  string

	// results
	evals        int64
	nontrivial   int64
	truncated    int64
	anomalies    int64
	emptyPrev0   int64
	maxDirtySeen int
	samples      []eSample
	wantSample   map[string]bool
	noSamples    bool
	only         *eViol // replay: restrict imaging to this point/model/pages
}

func eNewTracker(imgDir string, powerloss bool, maxDirty int) *eTracker {
	return &eTracker{imgDir: imgDir, durable: map[string][]byte{}, powerloss: powerloss, maxDirty: maxDirty, wantSample: map[string]bool{}}
}

func (t *eTracker) readFile(name string) []byte {
	b, err := ioutil.ReadFile(filepath.Join(t.w.dir, name))
	if err != nil {
		return nil
	}
	return b
}

func (t *eTracker) beginOp(pre, post *eModel, op eOp, imaging bool) {
	t.pre, t.post, t.op = pre, post, op
	t.floor = pre.floor
	t.imaging = imaging
	t.seen = map[string]bool{}
	t.classes = map[string]string{}
	t.creating = ""
	if imaging {
		t.preHash = eImageHash(eReadDir(t.w.dir))
	}
}

// endOp is the quiescent point after the op returned.
func (t *eTracker) endOp() {
	w := t.w
	// reconcile: Open fsyncs every file it maps (mmap.openFile), removal is durable
	cur := eReadDir(w.dir)
	if t.op.K == eReopen || t.op.K == "open" {
		t.durable = map[string][]byte{}
		for n, b := range cur {
			t.durable[n] = b
		}
	} else {
		for n := range t.durable {
			if _, ok := cur[n]; !ok {
				delete(t.durable, n)
			}
		}
		for n, b := range cur {
			if _, ok := t.durable[n]; !ok {
				t.durable[n] = b
			}
		}
	}
	if t.imaging {
		// every implicit or explicit commit of the op is complete now
		t.floor = t.post.floor
		pre := t.pre
		t.pre = t.post // the op is complete: only the post state is acceptable
		op := t.op
		t.op = eOp{K: "none"}
		w.busy = true
		w.point = "op.end"
		w.points["op.end"]++
		t.image("op.end")
		w.point = ""
		w.busy = false
		t.pre = pre
		t.op = op
		post := t.lastKill
		for _, h := range t.classes {
			if h != t.preHash && h != post {
				t.nontrivial++
			}
		}
	}
	t.imaging = false
}

func (t *eTracker) onPoint(name string, s *segment) {
	w := t.w
	base := ""
	if s != nil && s.file != nil {
		base = filepath.Base(s.file.Name())
	}
	switch name {
	case "sync.data", "sync.header", "roll.connected", "reset.done":
		// right after msync (or after openSegment, whose mmap.openFile fsyncs)
		if base != "" {
			t.durable[base] = t.readFile(base)
		}
	case "create.created":
		for _, n := range eListDir(w.dir) {
			if _, ok := t.durable[n]; !ok {
				t.creating = n
			}
		}
		if t.creating != "" {
			t.durable[t.creating] = t.readFile(t.creating)
		}
	case "create.truncated", "create.written", "create.synced":
		// creation and truncation are assumed atomic and durable; the 16 zero
		// bytes written at the tail do not change the (all zero) content.
		if t.creating != "" {
			t.durable[t.creating] = t.readFile(t.creating)
		}
	case "remove.removed":
		if base != "" {
			delete(t.durable, base)
		}
	}
	switch name {
	case "roll.committed", "removeLTE.committed", "removeGTE.committed", "reopen.closed":
		// Commit() has returned: a completed (implicit) commit of everything
		t.floor = t.pre.last()
	}
	if t.imaging {
		t.image(name)
	}
}

// image builds and checks the crash images at the current instant.
func (t *eTracker) image(point string) {
	w := t.w
	w.stats["imaged:"+point]++
	cur := eReadDir(w.dir)
	killHash := eImageHash(cur)
	t.lastKill = killHash
	if t.only == nil || (t.only.Point == point && t.only.Model == "kill") {
		t.evalImage(point, "kill", nil, 0, cur, killHash)
	}
	if !t.powerloss {
		return
	}
	var dirty []ePage
	var names []string
	for n := range cur {
		names = append(names, n)
	}
	sort.Strings(names)
	for _, n := range names {
		c := cur[n]
		d, ok := t.durable[n]
		if !ok || len(d) != len(c) {
			t.anomalies++
			continue
		}
		for off := 0; off < len(c); off += ePageSize {
			end := off + ePageSize
			if end > len(c) {
				end = len(c)
			}
			if !bytes.Equal(c[off:end], d[off:end]) {
				dirty = append(dirty, ePage{n, off / ePageSize})
			}
		}
	}
	for n := range t.durable {
		if _, ok := cur[n]; !ok {
			t.anomalies++
		}
	}
	k := len(dirty)
	if k > t.maxDirtySeen {
		t.maxDirtySeen = k
	}
	var masks []uint64
	if k <= t.maxDirty {
		for m := uint64(0); m < 1<<uint(k); m++ {
			masks = append(masks, m)
		}
	} else {
		full := uint64(1)<<uint(k) - 1
		masks = append(masks, 0, full)
		for i := 0; i < k; i++ {
			masks = append(masks, 1<<uint(i), full&^(1<<uint(i)))
		}
		t.truncated += int64(full+1) - int64(len(masks))
	}
	for _, m := range masks {
		img := map[string][]byte{}
		for _, n := range names {
			if d, ok := t.durable[n]; ok && len(d) == len(cur[n]) {
				img[n] = d
			} else {
				img[n] = cur[n]
			}
		}
		var pages []ePage
		copied := map[string]bool{}
		for i, pg := range dirty {
			if m&(1<<uint(i)) == 0 {
				continue
			}
			pages = append(pages, pg)
			if !copied[pg.File] {
				img[pg.File] = append([]byte(nil), img[pg.File]...)
				copied[pg.File] = true
			}
			off := pg.Page * ePageSize
			end := off + ePageSize
			if end > len(cur[pg.File]) {
				end = len(cur[pg.File])
			}
			copy(img[pg.File][off:end], cur[pg.File][off:end])
		}
		if t.only != nil {
			if t.only.Point != point || t.only.Model != "powerloss" || fmt.Sprint(t.only.Pages) != fmt.Sprint(pages) {
				continue
			}
		}
		h := eImageHash(img)
		t.evalImage(point, "powerloss", pages, k, img, h)
	}
}

func (t *eTracker) cfail(point, model string, pages []ePage, oracle, class, format string, args ...interface{}) {
	w := t.w
	key := fmt.Sprintf("%s:%s-after-%s@%s", oracle, class, model, point)
	if w.violSeen[key] {
		return
	}
	w.violSeen[key] = true
	desc := fmt.Sprintf(format, args...) + fmt.Sprintf(" [history: %s, crash (%s) at %s inside the last op, flushed pages %v; model before the op: %s]",
		eOpsString(w.hist), model, point, pages, t.pre.canon())
	w.viols = append(w.viols, eViol{Key: key, Desc: desc, Check: w.check, Seg: w.seg, Ops: append([]eOp(nil), w.hist...), Point: point, Model: model, Pages: pages})
}

// allowedPrev: the prevIndex values the (possibly in-flight) op may leave.
func (t *eTracker) allowedPrev() (map[uint64]bool, bool) {
	pre, post, op := t.pre, t.post, t.op
	set := map[uint64]bool{pre.prev: true, post.prev: true}
	emptyZero := false
	switch op.K {
	case eRemoveLTE:
		for _, s := range pre.segs {
			if s.prev <= post.prev {
				set[s.prev] = true
			}
		}
	case eRemoveGTE:
		if op.A <= pre.prev {
			emptyZero = true
		}
	case eReset:
		for _, s := range pre.segs {
			set[s.prev] = true
		}
		emptyZero = true
	}
	return set, emptyZero
}

// evalImage materialises one crash image, reopens it with the real log.Open
// and applies the C14 oracle.
func (t *eTracker) evalImage(point, model string, pages []ePage, ndirty int, img map[string][]byte, hash string) {
	w := t.w
	ck := point + "|" + hash
	if t.seen[ck] {
		return
	}
	t.seen[ck] = true
	t.classes[ck] = hash
	t.evals++
	w.stats["images_"+model]++

	_ = os.RemoveAll(t.imgDir)
	if err := os.MkdirAll(t.imgDir, 0700); err != nil {
		panic(err)
	}
	zeroLen := ""
	for n, b := range img {
		if err := ioutil.WriteFile(filepath.Join(t.imgDir, n), b, 0600); err != nil {
			panic(err)
		}
		if len(b) == 0 {
			zeroLen = n
		}
	}
	save := eCur
	eCur = nil
	defer func() { eCur = save }()

	result := ""
	defer func() {
		sk := t.op.K + "|" + point + "|" + model
		if !t.noSamples && !t.wantSample[sk] && len(t.samples) < 64 {
			t.wantSample[sk] = true
			t.samples = append(t.samples, eSample{Ops: append([]eOp(nil), w.hist...), Point: point, Model: model, Pages: pages, Dirty: ndirty, Result: result})
		}
	}()

	var r *Log
	var err error
	pan := eProtect(func() { r, err = Open(t.imgDir, 0700, w.opts()) })
	if pan != nil {
		result = "Open panics: " + ePanicString(pan)
		t.cfail(point, model, pages, "open-panics", "panic", "log.Open panics on the crash image: %s; files %v", ePanicString(pan), eSizes(img))
		return
	}
	if err != nil {
		result = "Open fails: " + err.Error()
		class := "error"
		if zeroLen != "" {
			class = "zero-length-segment"
		}
		t.cfail(point, model, pages, "open-fails", class, "log.Open fails on the crash image: %v; files %v", err, eSizes(img))
		return
	}
	defer func() { _ = eProtect(func() { _ = r.Close() }) }()

	pre, post := t.pre, t.post
	var rp, rl uint64
	if pan := eProtect(func() { rp, rl = r.PrevIndex(), r.LastIndex() }); pan != nil {
		t.cfail(point, model, pages, "reopened", "bounds-panic", "PrevIndex/LastIndex panic: %s", ePanicString(pan))
		return
	}
	result = fmt.Sprintf("ok: entries (%d,%d]", rp, rl)
	if rl < rp {
		t.cfail(point, model, pages, "reopened", "last-below-prev", "reopened log has PrevIndex=%d LastIndex=%d", rp, rl)
		return
	}
	allowed, emptyZero := t.allowedPrev()
	if !allowed[rp] {
		if emptyZero && rp == 0 && rl == 0 {
			t.emptyPrev0++
		} else {
			t.cfail(point, model, pages, "reopened", "prev-index-not-explained", "reopened log starts after %d; before the op prev=%d, after it prev=%d", rp, pre.prev, post.prev)
		}
	}
	for j := rp + 1; j <= rl; j++ {
		var b []byte
		var gerr error
		j := j
		pan := eProtect(func() { b, gerr = r.Get(j) })
		if pan != nil || gerr != nil {
			t.cfail(point, model, pages, "reopened", "entry-unreadable", "Get(%d) on the reopened log: err=%v panic=%v; entries (%d,%d]", j, gerr, pan, rp, rl)
			break
		}
		e0, ok0 := pre.ent(j)
		e1, ok1 := post.ent(j)
		if !ok0 && !ok1 {
			t.cfail(point, model, pages, "reopened", "entry-never-appended-or-removed", "reopened log has entry %d = %s; the log was (%d,%d] before and is (%d,%d] after the op", j, w.describe(b), pre.prev, pre.last(), post.prev, post.last())
			break
		}
		if (ok0 && bytes.Equal(b, ePay(e0.id, e0.size))) || (ok1 && bytes.Equal(b, ePay(e1.id, e1.size))) {
			continue
		}
		want := e0
		if !ok0 {
			want = e1
		}
		t.cfail(point, model, pages, "reopened", "entry-bytes-differ", "reopened entry %d = %s, appended payload #%d of %d bytes", j, w.describe(b), want.id, want.size)
		break
	}
	need := t.floor
	switch t.op.K {
	case eRemoveGTE:
		if t.op.A <= pre.prev {
			need = 0
		} else if t.op.A-1 < need {
			need = t.op.A - 1
		}
	case eReset:
		need = 0
	}
	if need > rp && rl < need {
		t.cfail(point, model, pages, "reopened", "committed-entry-missing", "entries up to %d were covered by a completed commit, reopened log ends at %d (starts after %d)", need, rl, rp)
	}
	// segment files left in the directory but not part of the reopened chain
	inChain := map[string]bool{}
	_ = eProtect(func() {
		for s := r.first; s != nil; s = s.next {
			inChain[fmt.Sprintf("%d.log", s.prevIndex)] = true
		}
	})
	for _, n := range eListDir(t.imgDir) {
		if strings.HasSuffix(n, ".log") && !inChain[n] {
			t.cfail(point, model, pages, "open-leaves-dangling-segment", "file", "after Open the directory still holds %s which is not part of the log (%d,%d]", n, rp, rl)
		}
	}
}

func eSizes(img map[string][]byte) string {
	var s []string
	for n, b := range img {
		s = append(s, fmt.Sprintf("%s:%dB", n, len(b)))
	}
	sort.Strings(s)
	return strings.Join(s, " ")
}
