// +build verif

package log

// E-LOG world: one real log.Log in a scratch directory driven in lock step
// with the reference model (elog_model.go).  Holds the C13 oracles: every
// return value of the exported API against the model, the white-box layout
// comparison, and the view/reader checks executed at the writer's hook points.

import (
	"bytes"
	"crypto/sha256"
	"encoding/hex"
	"fmt"
	"io"
	"io/ioutil"
	"os"
	"path/filepath"
	"sort"
	"strings"
)

// ePage names one 4 KiB page of one segment file (power-loss subsets).
type ePage struct {
	File string `json:"file"`
	Page int    `json:"page"`
}

// eViol is a violation together with its replay artefact.
type eViol struct {
	Key   string  `json:"key"`
	Desc  string  `json:"desc"`
	Check string  `json:"check"`
	Seg   int     `json:"segsize"`
	Ops   []eOp   `json:"ops"`
	Point string  `json:"point,omitempty"` // C14: crash point inside the last op
	Model string  `json:"model,omitempty"` // C14: kill | powerloss
	Pages []ePage `json:"pages,omitempty"` // C14: dirty pages that reached the disk
}

type eView struct {
	v    *Log
	p, l uint64
	born int // number of ops executed when the view was created
}

// eClosedRead is panicked by the segGet hook instead of letting the process
// touch an unmapped segment.
type eClosedRead struct{ prevIndex uint64 }

type eWorld struct {
	check    string
	seg, mid int
	dir      string
	l        *Log
	m        *eModel
	hist     []eOp
	views    []*eView
	closed   map[*segment]bool
	viols    []eViol
	violSeen map[string]bool
	stats    map[string]int64
	points   map[string]int64

	cur      eOp
	outcome  string
	readerOn bool
	point    string
	busy     bool
	dead     bool // the real log is unusable; no further ops
	stateBad bool // a state oracle (not a crash-image oracle) failed: do not expand further

	tr *eTracker
}

var eCur *eWorld

func eInstallHooks() {
	verifHooks.point = func(name string, s *segment) {
		if w := eCur; w != nil {
			w.onPoint(name, s)
		}
	}
	verifHooks.segClosed = func(s *segment) {
		if w := eCur; w != nil {
			w.closed[s] = true
		}
	}
	verifHooks.segGet = func(s *segment) {
		if w := eCur; w != nil && w.closed[s] {
			panic(eClosedRead{s.prevIndex})
		}
	}
}

func eProtect(fn func()) (pan interface{}) {
	defer func() { pan = recover() }()
	fn()
	return nil
}

func ePanicString(p interface{}) string {
	switch v := p.(type) {
	case eClosedRead:
		return fmt.Sprintf("read through closed (unmapped) segment %d.log", v.prevIndex)
	case error:
		return v.Error()
	}
	return fmt.Sprint(p)
}

var ePayloadCache = map[[2]int][]byte{}

// ePay is ePayload with a cache (payloads are read-only).
func ePay(id, size int) []byte {
	k := [2]int{id, size}
	if b, ok := ePayloadCache[k]; ok {
		return b
	}
	b := ePayload(id, size)
	ePayloadCache[k] = b
	return b
}

// eqConcat reports whether the concatenation of bs equals the model payloads
// of entries i..i+n-1, without building either.
func (w *eWorld) eqConcat(bs [][]byte, i, n uint64) bool {
	bi, off := 0, 0
	for j := i; j < i+n; j++ {
		e, ok := w.m.ent(j)
		if !ok {
			return false
		}
		want := ePay(e.id, e.size)
		for len(want) > 0 {
			for bi < len(bs) && off == len(bs[bi]) {
				bi, off = bi+1, 0
			}
			if bi == len(bs) {
				return false
			}
			k := len(bs[bi]) - off
			if k > len(want) {
				k = len(want)
			}
			if !bytes.Equal(bs[bi][off:off+k], want[:k]) {
				return false
			}
			off += k
			want = want[k:]
		}
	}
	for bi < len(bs) {
		if off != len(bs[bi]) {
			return false
		}
		bi, off = bi+1, 0
	}
	return true
}

func (w *eWorld) opts() Options { return Options{FileMode: 0600, SegmentSize: w.seg} }

// eNewWorld opens a log on a fresh directory.  If tr is non-nil it tracks
// durable images from the very first file creation.
func eNewWorld(check string, seg, mid int, dir string, tr *eTracker, imageOpen bool) *eWorld {
	w := &eWorld{
		check: check, seg: seg, mid: mid, dir: dir,
		m:        eNewModel(seg),
		closed:   map[*segment]bool{},
		violSeen: map[string]bool{},
		stats:    map[string]int64{},
		points:   map[string]int64{},
		tr:       tr,
	}
	_ = os.RemoveAll(dir)
	if err := os.MkdirAll(dir, 0700); err != nil {
		panic(err)
	}
	eCur = w
	w.cur = eOp{K: "open"}
	if tr != nil {
		tr.w = w
		tr.beginOp(w.m, w.m, w.cur, imageOpen)
	}
	var err error
	pan := eProtect(func() { w.l, err = Open(dir, 0700, w.opts()) })
	if tr != nil {
		tr.endOp()
	}
	if pan != nil || err != nil {
		w.fail("open", "initial-open-fails", "Open on an empty directory: err=%v panic=%v", err, pan)
		w.dead = true
	}
	if !w.dead {
		w.addViews()
	}
	return w
}

func (w *eWorld) destroy() {
	if w.l != nil {
		l := w.l
		eCur = nil
		_ = eProtect(func() { _ = l.Close() })
		w.l = nil
	}
	if eCur == w {
		eCur = nil
	}
	_ = os.RemoveAll(w.dir)
	if w.tr != nil {
		_ = os.RemoveAll(w.tr.imgDir)
	}
}

func (w *eWorld) ctx() string {
	c := w.cur.K
	if w.point != "" {
		c += "/" + w.point
	}
	return c
}

func (w *eWorld) fail(oracle, class, format string, args ...interface{}) {
	key := oracle + ":" + class + "@" + w.ctx()
	if oracle != "layout" {
		// white-box layout differences are reported but the state is still
		// expanded, so that their behavioural consequences are reported too
		w.stateBad = true
	}
	if w.violSeen[key] {
		return
	}
	w.violSeen[key] = true
	desc := fmt.Sprintf(format, args...) + fmt.Sprintf(" [history: %s; model: %s]", eOpsString(w.hist), w.m.canon())
	w.viols = append(w.viols, eViol{Key: key, Desc: desc, Check: w.check, Seg: w.seg, Ops: append([]eOp(nil), w.hist...), Point: w.point})
}

func (w *eWorld) onPoint(name string, s *segment) {
	if w.busy {
		return
	}
	w.busy = true
	w.point = name
	w.points[name]++
	if w.tr != nil {
		w.tr.onPoint(name, s)
	}
	if w.readerOn {
		// concurrent reader step: every open view is read over its whole
		// range while the writer is stopped at this point.
		for _, v := range w.views {
			w.checkReads("view", v.v, v.p, v.l, 0)
			w.stats["reader_steps_at_hook_points"]++
		}
	}
	w.point = ""
	w.busy = false
}

// addViews opens a view for every range p<=l of the current state that is
// not yet held.  ViewAt does not modify the log, so holding all ranges at
// once subsumes every choice of a subset; the oldest object per range is kept.
func (w *eWorld) addViews() {
	have := map[[2]uint64]bool{}
	for _, v := range w.views {
		have[[2]uint64{v.p, v.l}] = true
	}
	for p := w.m.prev; p <= w.m.last(); p++ {
		for l := p; l <= w.m.last(); l++ {
			if have[[2]uint64{p, l}] {
				continue
			}
			var v *Log
			p, l := p, l
			pan := eProtect(func() { v = w.l.ViewAt(p, l) })
			if pan != nil || v == nil {
				w.fail("ViewAt", "in-range-refused", "ViewAt(%d,%d) = %v panic=%v, log is (%d,%d]", p, l, v, pan, w.m.prev, w.m.last())
				continue
			}
			w.views = append(w.views, &eView{v: v, p: p, l: l, born: len(w.hist)})
		}
	}
}

func (w *eWorld) do(op eOp, id int) error {
	switch op.K {
	case eAppend:
		return w.l.Append(ePay(id, int(op.A)))
	case eCommit:
		return w.l.Commit()
	case eCommitN:
		return w.l.CommitN(op.A)
	case eRemoveLTE:
		return w.l.RemoveLTE(op.A)
	case eRemoveGTE:
		return w.l.RemoveGTE(op.A)
	case eReset:
		return w.l.Reset(op.A)
	case eReopen:
		if err := w.l.Close(); err != nil {
			return err
		}
		old := w.l
		w.l = nil
		if w.tr != nil {
			w.onPoint("reopen.closed", nil)
		}
		l, err := Open(w.dir, 0700, w.opts())
		if err != nil {
			_ = old
			return err
		}
		w.l = l
		return nil
	}
	panic("unknown op")
}

// step executes one mutating op on the real log and on the model.  With full
// set, the reached state is evaluated with all reads.
func (w *eWorld) step(op eOp, full bool) {
	if w.dead {
		return
	}
	w.hist = append(w.hist, op)
	w.cur = op
	pre := w.m
	post := pre.clone()
	outcome, wantErr := post.apply(op)
	w.outcome = outcome
	if op.invalidatesViews() {
		w.views = nil
	}
	var preCan uint64
	if op.K == eRemoveLTE {
		if pan := eProtect(func() { preCan = w.l.CanLTE(op.A) }); pan != nil {
			w.fail("CanLTE", "panic", "CanLTE(%d) panics: %s", op.A, ePanicString(pan))
		}
	}
	w.readerOn = op.K == eAppend || op.K == eCommit || op.K == eCommitN
	if w.tr != nil {
		w.tr.beginOp(pre, post, op, w.tr.imageNext)
	}
	var err error
	pan := eProtect(func() { err = w.do(op, pre.nextID) })
	w.readerOn = false
	if w.tr != nil && pan == nil {
		w.tr.endOp()
	}
	if pan != nil {
		w.fail("op", "panic", "%s panics: %s", op, ePanicString(pan))
		w.dead = true
		return
	}
	if err != wantErr {
		w.fail("op", "error", "%s returned %v, documented %v", op, err, wantErr)
		if w.l == nil || err != nil {
			w.dead = true
			return
		}
	}
	w.m = post
	if w.l == nil {
		w.dead = true
		return
	}
	if op.K == eRemoveLTE {
		var got uint64
		if pan := eProtect(func() { got = w.l.PrevIndex() }); pan == nil {
			if got != preCan {
				w.fail("RemoveLTE", "disagrees-with-CanLTE", "CanLTE(%d)=%d but after RemoveLTE(%d) PrevIndex=%d", op.A, preCan, op.A, got)
			}
			if got > op.A && got != pre.prev {
				w.fail("RemoveLTE", "beyond-requested-index", "RemoveLTE(%d) left PrevIndex=%d", op.A, got)
			}
			ok := false
			for _, s := range pre.segs {
				if s.prev == got {
					ok = true
				}
			}
			if !ok {
				w.fail("RemoveLTE", "not-a-segment-boundary", "RemoveLTE(%d) left PrevIndex=%d, segments were %v", op.A, got, pre.segs)
			}
		}
	}
	w.addViews()
	if full {
		w.evalState()
	}
}

func (w *eWorld) indices(p, last uint64) []uint64 {
	lo := p
	if lo > 0 {
		lo--
	}
	var out []uint64
	if lo > 0 {
		out = append(out, 0)
	}
	for i := lo; i <= last+2; i++ {
		out = append(out, i)
	}
	return out
}

// checkReads compares every read of lg (the log itself or a view) against the
// model restricted to (p,last].  level 0: in-range Get of every index and one
// GetN over the whole range (reader step); level 1: plus bounds, Contains and
// out-of-range answers and GetN for every (i,n).
func (w *eWorld) checkReads(who string, lg *Log, p, last uint64, level int) {
	var gp, gl, gc uint64
	if pan := eProtect(func() { gp, gl, gc = lg.PrevIndex(), lg.LastIndex(), lg.Count() }); pan != nil {
		w.fail(who+".bounds", w.panicClass(pan), "PrevIndex/LastIndex/Count panic: %s", ePanicString(pan))
		return
	}
	if gp != p || gl != last || gc != last-p {
		w.fail(who+".bounds", "differ", "PrevIndex=%d LastIndex=%d Count=%d, model (%d,%d] count %d", gp, gl, gc, p, last, last-p)
		return
	}
	get := func(i uint64) {
		var b []byte
		var err error
		pan := eProtect(func() { b, err = lg.Get(i) })
		w.stats["reads"]++
		switch {
		case i > last:
			if pan == nil {
				w.fail(who+".Get", "no-panic-beyond-last", "Get(%d) returned (%d bytes, %v), documented to panic; last=%d", i, len(b), err, last)
			} else if _, c := pan.(eClosedRead); c {
				w.fail(who+".Get", "closed-segment", "Get(%d): %s", i, ePanicString(pan))
			}
		case pan != nil:
			w.fail(who+".Get", w.panicClass(pan), "Get(%d) panics: %s; range (%d,%d]", i, ePanicString(pan), p, last)
		case i <= p:
			if err != ErrNotFound {
				w.fail(who+".Get", "not-ErrNotFound-at-or-below-prev", "Get(%d) = (%d bytes, %v), documented ErrNotFound; prev=%d", i, len(b), err, p)
			}
		default:
			if err != nil {
				w.fail(who+".Get", "error-in-range", "Get(%d) error %v; range (%d,%d]", i, err, p, last)
			} else if e, _ := w.m.ent(i); !bytes.Equal(b, ePay(e.id, e.size)) {
				w.fail(who+".Get", "bytes-differ", "Get(%d) returned %s, appended %s", i, w.describe(b), w.describe(w.m.payload(i)))
			}
		}
	}
	getN := func(i, n uint64) {
		var bs [][]byte
		var err error
		pan := eProtect(func() { bs, err = lg.GetN(i, n) })
		w.stats["reads"]++
		switch {
		case i+n-1 > last:
			if _, c := pan.(eClosedRead); c {
				w.fail(who+".GetN", "closed-segment", "GetN(%d,%d): %s", i, n, ePanicString(pan))
			} else if pan == nil && !(i <= p && err == ErrNotFound) {
				w.fail(who+".GetN", "no-panic-beyond-last", "GetN(%d,%d) returned (%d buffers, %v), documented to panic; last=%d", i, n, len(bs), err, last)
			}
		case pan != nil:
			w.fail(who+".GetN", w.panicClass(pan), "GetN(%d,%d) panics: %s; range (%d,%d]", i, n, ePanicString(pan), p, last)
		case i <= p:
			if err != ErrNotFound {
				w.fail(who+".GetN", "not-ErrNotFound-at-or-below-prev", "GetN(%d,%d) = (%d buffers, %v), documented ErrNotFound; prev=%d", i, n, len(bs), err, p)
			}
		default:
			if err != nil {
				w.fail(who+".GetN", "error-in-range", "GetN(%d,%d) error %v; range (%d,%d]", i, n, err, p, last)
				return
			}
			if !w.eqConcat(bs, i, n) {
				w.fail(who+".GetN", "bytes-differ", "GetN(%d,%d) returned %d buffers %s, appended %s", i, n, len(bs), w.describe(bytes.Join(bs, nil)), w.describe(w.m.concat(i, n)))
			}
			if len(bs) > 1 {
				w.stats["getn_spanning_segments"]++
			}
		}
	}
	if level == 0 {
		for i := p + 1; i <= last; i++ {
			get(i)
		}
		if last > p {
			getN(p+1, last-p)
		}
		return
	}
	idx := w.indices(p, last)
	for _, i := range idx {
		var c bool
		i := i
		if pan := eProtect(func() { c = lg.Contains(i) }); pan != nil || c != (i > p && i <= last) {
			w.fail(who+".Contains", "differs", "Contains(%d)=%v panic=%v; range (%d,%d]", i, c, pan, p, last)
		}
		get(i)
	}
	for _, i := range idx {
		if i > last+1 {
			continue
		}
		for n := uint64(1); i+n-1 <= last+1; n++ {
			getN(i, n)
		}
	}
}

func (w *eWorld) panicClass(pan interface{}) string {
	if _, c := pan.(eClosedRead); c {
		return "closed-segment"
	}
	return "panic"
}

// describe renders bytes as the payload ids they look like.
func (w *eWorld) describe(b []byte) string {
	if len(b) == 0 {
		return "<0 bytes>"
	}
	for id := 1; id < w.m.nextID+1 && id < 256; id++ {
		if b[0] == ePayload(id, 1)[0] {
			if bytes.Equal(b, ePayload(id, len(b))) {
				return fmt.Sprintf("<%d bytes of payload #%d>", len(b), id)
			}
			return fmt.Sprintf("<%d bytes starting like payload #%d>", len(b), id)
		}
	}
	return fmt.Sprintf("<%d bytes, first 0x%02x>", len(b), b[0])
}

// evalState evaluates every read in the current state.
func (w *eWorld) evalState() {
	if w.dead || w.l == nil {
		return
	}
	w.stats["states_evaluated"]++
	m := w.m
	w.checkLayout()
	w.checkReads("log", w.l, m.prev, m.last(), 1)
	idx := w.indices(m.prev, m.last())
	for _, i := range idx {
		var c uint64
		i := i
		pan := eProtect(func() { c = w.l.CanLTE(i) })
		w.stats["reads"]++
		if pan != nil {
			w.fail("CanLTE", "panic", "CanLTE(%d) panics: %s", i, ePanicString(pan))
		} else if want := m.canLTE(i); c != want {
			w.fail("CanLTE", "differs", "CanLTE(%d)=%d, model %d; segments %v", i, c, want, m.segs)
		}
	}
	// ViewAt for every pair, in and out of range
	for _, p := range idx {
		for _, l := range idx {
			if l > m.last()+1 || p > m.last()+1 {
				continue
			}
			var v *Log
			p, l := p, l
			pan := eProtect(func() { v = w.l.ViewAt(p, l) })
			w.stats["reads"]++
			switch {
			case l > m.last():
				if pan == nil {
					w.fail("ViewAt", "no-panic-beyond-last", "ViewAt(%d,%d) returned %v, documented to panic; last=%d", p, l, v != nil, m.last())
				}
			case pan != nil:
				w.fail("ViewAt", "panic", "ViewAt(%d,%d) panics: %s", p, l, ePanicString(pan))
			case p > l || p < m.prev:
				if v != nil {
					w.fail("ViewAt", "out-of-range-accepted", "ViewAt(%d,%d) returned a view; log is (%d,%d]", p, l, m.prev, m.last())
				}
			case v == nil:
				w.fail("ViewAt", "in-range-refused", "ViewAt(%d,%d) = nil; log is (%d,%d]", p, l, m.prev, m.last())
			default:
				w.checkReads("newview", v, p, l, 1)
				w.stats["views_checked"]++
			}
		}
	}
	// views held since earlier states (the writer only appended/committed since)
	for _, v := range w.views {
		if v.born == len(w.hist) {
			continue // opened in this very state: identical to the fresh view of that range checked above
		}
		w.checkReads("view", v.v, v.p, v.l, 1)
		w.stats["views_checked"]++
		w.stats["older_views_checked"]++
	}
}

// checkLayout compares the in-memory segment chain and the directory with the
// layout implied by the documented roll-over rule.  The commit status
// (synced) is deliberately not compared: it is not observable through the
// read API (C13); what must be durable is decided by C14 on crash images.
func (w *eWorld) checkLayout() {
	m := w.m
	var got []string
	var prev *segment
	ok := true
	pan := eProtect(func() {
		for s := w.l.first; s != nil; s = s.next {
			got = append(got, fmt.Sprintf("(%d,%d,%d,%d)", s.prevIndex, s.n, len(s.file.Data), s.size))
			if s.prev != prev {
				ok = false
			}
			prev = s
			if len(got) > len(m.segs)+4 {
				break
			}
		}
		if prev != w.l.last || w.l.first.prev != nil {
			ok = false
		}
	})
	var want []string
	for _, s := range m.segs {
		want = append(want, fmt.Sprintf("(%d,%d,%d,%d)", s.prev, s.n, s.fsize, s.dsize))
	}
	if pan != nil {
		w.fail("layout", "panic", "walking the segment chain panics: %s", ePanicString(pan))
		return
	}
	if !ok {
		w.fail("layout", "chain-links-inconsistent", "prev/next/first/last pointers inconsistent; segments %v", got)
	}
	if strings.Join(got, "") != strings.Join(want, "") {
		w.fail("layout", "segments-differ", "segments (prev,n,filesize,datasize) are %v, documented roll-over rule gives %v", got, want)
	}
	if w.l.opt.SegmentSize != m.opt {
		w.fail("layout", "segment-size-option", "opt.SegmentSize=%d, model %d", w.l.opt.SegmentSize, m.opt)
	}
	var wantFiles []string
	for _, s := range m.segs {
		wantFiles = append(wantFiles, fmt.Sprintf("%d.log", s.prev))
	}
	sort.Strings(wantFiles)
	files := eListDir(w.dir)
	if strings.Join(files, ",") != strings.Join(wantFiles, ",") {
		w.fail("layout", "files-differ", "directory holds %v, expected %v", files, wantFiles)
	}
}

func eListDir(dir string) []string {
	fis, err := ioutil.ReadDir(dir)
	if err != nil {
		return nil
	}
	var out []string
	for _, fi := range fis {
		out = append(out, fi.Name())
	}
	sort.Strings(out)
	return out
}

func eReadDir(dir string) map[string][]byte {
	out := map[string][]byte{}
	for _, name := range eListDir(dir) {
		b, err := ioutil.ReadFile(filepath.Join(dir, name))
		if err != nil {
			continue
		}
		out[name] = b
	}
	return out
}

func eHashFiles(h io.Writer, files map[string][]byte) {
	var names []string
	for n := range files {
		names = append(names, n)
	}
	sort.Strings(names)
	for _, n := range names {
		fmt.Fprintf(h, "|%s:%d:", n, len(files[n]))
		h.Write(files[n])
	}
}

func eImageHash(files map[string][]byte) string {
	h := sha256.New()
	eHashFiles(h, files)
	return hex.EncodeToString(h.Sum(nil)[:12])
}

// stateKey is the dedup key: model state plus the real implementation state
// (in-memory descriptors, option, file bytes and, for C14, durable images).
func (w *eWorld) stateKey() string {
	h := sha256.New()
	io.WriteString(h, w.m.canon())
	if w.dead || w.l == nil {
		fmt.Fprintf(h, "|dead:%s", eOpsString(w.hist))
		return hex.EncodeToString(h.Sum(nil)[:16])
	}
	_ = eProtect(func() {
		fmt.Fprintf(h, "|opt%d", w.l.opt.SegmentSize)
		k := 0
		for s := w.l.first; s != nil && k < 64; s = s.next {
			fmt.Fprintf(h, "|%d,%d,%d,%d,%d", s.prevIndex, s.n, s.size, s.synced, len(s.file.Data))
			k++
		}
	})
	eHashFiles(h, eReadDir(w.dir))
	if w.tr != nil {
		io.WriteString(h, "|durable")
		eHashFiles(h, w.tr.durable)
	}
	return hex.EncodeToString(h.Sum(nil)[:16])
}
