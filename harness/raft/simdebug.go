//go:build verif
// +build verif

package raft

import (
	"encoding/json"
	"fmt"
	"os"
	"strings"
	"time"
)

// simdebug: run a scenario's seed script, then optionally a list of events,
// printing enabled events and the canonical state (harness development aid
// and the replay command for violation artefacts).
func simDebugMain(args []string) int {
	name := vkArg(args, "scenario", "elect")
	sc := simScenarios[name]
	if sc == nil {
		fmt.Println("unknown scenario", name)
		return 2
	}
	simTrace = true
	sc = cloneScenario(sc)
	sc.MaxDev = vkArgInt(args, "dev", sc.MaxDev)
	s, err := newSimState(sc)
	if err != nil {
		fmt.Println("seed failed:", err)
		return 1
	}
	defer s.close()
	if h := vkArg(args, "hist", ""); h != "" {
		// history in the readable form printed by explore: "SN(n1) SS(n1) D(n2 0>1#0) ..."
		for _, tok := range splitEvents(h) {
			ev := s.enabled()
			found := false
			for _, e := range ev {
				if e.String() == tok {
					if err := s.apply(e, false); err != nil {
						fmt.Println("apply error:", tok, err)
						return 1
					}
					found = true
					break
				}
			}
			if !found && strings.HasPrefix(tok, "KA(") {
				// "node dies at its k-th storage point during <event>": KA(n1 a5 name during D(n1 1>0#0))
				if i := strings.Index(tok, " during "); i > 0 {
					inner := strings.TrimSuffix(tok[i+len(" during "):], ")")
					for _, e := range ev {
						if e.String() != inner {
							continue
						}
						in := e
						ka := simEvent{K: "KA", In: &in, Dev: e.Dev + 1}
						fmt.Sscanf(tok, "KA(n%d", &ka.N)
						ka.N--
						for _, f := range strings.Fields(tok[:i]) {
							if len(f) > 1 && f[0] == 'a' {
								fmt.Sscanf(f[1:], "%d", &ka.A)
							}
						}
						if err := s.apply(ka, false); err != nil {
							fmt.Println("apply error:", tok, err)
							return 1
						}
						found = true
						break
					}
				}
			}
			if !found {
				fmt.Println("event not enabled:", tok)
				break
			}
		}
	}
	if vkArg(args, "fair", "") != "" {
		rounds, problem := fairContinuation(s, vkArgInt(args, "rounds", 40), vkArgInt(args, "exclude", -1))
		fmt.Println(strings.Join(s.w.trace, "\n"))
		fmt.Printf("fair continuation: rounds=%d problem=%q\n", rounds, problem)
		fmt.Println(s.w.canon(s.cnt))
		return 0
	}
	if vkArg(args, "expand", "") != "" {
		hist := append([]simEvent(nil), s.hist...)
		resp := expandState(sc, &expandReq{Hist: hist})
		for _, sr := range resp.Succ {
			fmt.Printf("  succ %v hash=%.8s err=%s viol=%d\n", sr.Ev, sr.Hash, firstLine(sr.Err), len(sr.Viol))
		}
		return 0
	}
	if t := vkArgInt(args, "try", -1); t >= 0 {
		ev := s.enabled()
		fmt.Println("trying", ev[t])
		if err := s.apply(ev[t], false); err != nil {
			fmt.Println("apply error:", err)
		}
	}
	steps := vkArgInt(args, "steps", 0)
	for i := 0; ; i++ {
		ev := s.enabled()
		fmt.Printf("--- step %d dev=%d hash=%s enabled=%d\n", i, s.dev, s.hash()[:8], len(ev))
		if vkArg(args, "canon", "") != "" {
			fmt.Println(s.w.canon(s.cnt))
		}
		for j, e := range ev {
			fmt.Printf("   [%d] %v dev=%d\n", j, e, e.Dev)
		}
		if i >= steps || len(ev) == 0 {
			break
		}
		pick := 0
		if err := s.apply(ev[pick], false); err != nil {
			fmt.Println("apply error:", err)
			return 1
		}
		fmt.Println("   applied", ev[pick])
	}
	for _, v := range s.w.led.viol {
		fmt.Printf("VIOL %s:%s %s\n", v.Oracle, v.Key, v.Desc)
	}
	fmt.Println(strings.Join(s.w.trace, "\n"))
	return 0
}

// simReplayMain re-runs a violation artefact: {scenario, hist}.
func simReplayMain(args []string) int {
	if len(args) < 1 {
		fmt.Println("usage: replay <file>")
		return 2
	}
	b, err := os.ReadFile(args[0])
	if err != nil {
		fmt.Println(err)
		return 2
	}
	var art struct {
		Property string `json:"property"`
		Key      string `json:"key"`
		Replay   struct {
			Scenario json.RawMessage `json:"scenario"`
			Hist     []simEvent      `json:"hist"`
			Oracle   string          `json:"oracle"`
			Final    string          `json:"final"`
			Prefix   []simEvent      `json:"prefix"`
		} `json:"replay"`
	}
	if err := json.Unmarshal(b, &art); err != nil {
		fmt.Println(err)
		return 2
	}
	var sc simScenario
	if err := json.Unmarshal(art.Replay.Scenario, &sc); err != nil {
		fmt.Println("bad scenario in artefact:", err)
		return 2
	}
	var obs [2]string
	hit := false
	if art.Replay.Final != "" {
		// found by a final check (fair continuation / shutdown sweep): the same check is run again from the explored history
		if sc.Final == "" {
			sc.Final = art.Replay.Final
		}
		for round := 0; round < 2; round++ {
			var keys []string
			for _, v := range finalCheck(&sc, art.Replay.Prefix) {
				keys = append(keys, v.Oracle+":"+v.Key)
				if round == 0 {
					fmt.Printf("observed %s:%s %s\n", v.Oracle, v.Key, v.Desc)
				}
				if v.Oracle+":"+v.Key == art.Key || v.Key == art.Key {
					hit = true
				}
			}
			obs[round] = strings.Join(keys, " ")
		}
		if obs[0] != obs[1] {
			fmt.Println("REPLAY-NONDETERMINISTIC", obs)
			return 2
		}
		if hit {
			fmt.Printf("VIOLATION property=%s replay=%s\n", art.Property, args[0])
			return 1
		}
		fmt.Println("replay: violation not reproduced")
		return 0
	}
	for round := 0; round < 2; round++ {
		simTrace = round == 0
		s, err := replayHist(&sc, art.Replay.Hist)
		if err != nil {
			fmt.Println("replay error:", err)
			obs[round] = "error:" + firstLine(err.Error())
		} else {
			obs[round] = s.hash()
		}
		for _, v := range s.w.led.viol {
			if round == 0 {
				fmt.Printf("observed %s:%s %s\n", v.Oracle, v.Key, v.Desc)
			}
			if v.Oracle+":"+v.Key == art.Key || v.Key == art.Key {
				hit = true
			}
		}
		if round == 0 {
			fmt.Println(strings.Join(s.w.trace, "\n"))
		}
		s.close()
	}
	if obs[0] != obs[1] {
		fmt.Println("REPLAY-NONDETERMINISTIC", obs)
		return 2
	}
	if hit {
		fmt.Printf("VIOLATION property=%s replay=%s\n", art.Property, args[0])
		return 1
	}
	fmt.Println("replay: violation not reproduced")
	return 0
}

var simScenarios = map[string]*simScenario{}

func init() {
	vkCommands["simdebug"] = simDebugMain
	vkCommands["replay"] = simReplayMain
}

// simExploreMain explores one named scenario and prints the result (development aid).
func simExploreMain(args []string) int {
	cleanup := vkScratchRoot()
	defer cleanup()
	sc := simScenarios[vkArg(args, "scenario", "elect")]
	if sc == nil {
		fmt.Println("unknown scenario")
		return 2
	}
	sc = cloneScenario(sc)
	sc.MaxDev = vkArgInt(args, "dev", sc.MaxDev)
	if t := vkArgInt(args, "calltimeout", 0); t > 0 {
		simCallTimeout = time.Duration(t) * time.Second
	}
	res := explore(sc, time.Duration(vkArgInt(args, "budget", 60))*time.Second, 0)
	fmt.Printf("states=%d transitions=%d depth=%d devCompleted=%d exhaustive=%v cap=%q wall=%.1fs mismatches=%d deaths=%d order=%d/%d chained=%d stats=%v\n",
		res.States, res.Transitions, res.MaxDepth, res.DevCompleted, res.Exhaustive, res.Capped, res.Wall, res.Mismatches, res.WorkerDeaths, res.OrderSteps, res.OrderAlts, res.Chained, res.Stats)
	for i, e := range res.Errors {
		if i < 8 {
			fmt.Println("ERR", e)
		}
	}
	for _, f := range res.Findings {
		fmt.Printf("FINDING %s:%s %s\n   hist=%v\n", f.Viol.Oracle, f.Viol.Key, firstLine(f.Viol.Desc), histStrings(f.Hist))
		if vkArg(args, "json", "") != "" {
			b, _ := json.Marshal(f.Hist)
			fmt.Println("   json=" + string(b))
		}
	}
	return 0
}

func init() { vkCommands["explore"] = simExploreMain }

func splitEvents(h string) []string {
	var out []string
	depth, start := 0, -1
	for i, c := range h {
		switch c {
		case '(':
			depth++
		case ')':
			depth--
			if depth == 0 && start >= 0 {
				out = append(out, strings.TrimSpace(h[start:i+1]))
				start = -1
			}
		default:
			if start < 0 && c != ' ' {
				start = i
			}
		}
	}
	return out
}
