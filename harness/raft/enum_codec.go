//go:build verif
// +build verif

package raft

// C18 — "Wire and on-disk encodings round-trip and stay framed".
// E-ENUM `codec`: exhaustive enumeration over stated finite domains.
//
//   * codec part  (this file + enum_codec_types.go): for every message/record
//     type the t-wise product of per-field boundary domains (t = number of
//     fields, i.e. the full product, whenever that stays below the per-type
//     cap; otherwise the largest t >= 2 that does: the full product of every
//     t-subset of fields with the remaining fields at each of two baselines).
//     Oracles: decode(encode(x) ++ tail) == (x, tail) for 3 tails and 3 reader
//     kinds; every proper prefix of every distinct encoding must yield an
//     error (no value, no panic).
//   * pipeline part (enum_codec_disk.go): streams of 3 append requests with
//     entries through the real replyRPC / onAppendEntriesRequest /
//     isEntryBuffered on a real *Raft.
//   * value files (enum_codec_disk.go): every pair of the integer domain
//     through SetIdentity -> New and setTerm/setVotedFor -> reopen.
//
// Nothing is sampled at random; all counts are deterministic.

import (
	"bufio"
	"bytes"
	"crypto/sha256"
	"encoding/hex"
	"encoding/json"
	"fmt"
	"io"
	"io/ioutil"
	"os"
	"runtime"
	"runtime/debug"
	"sort"
	"strings"
	"sync"
	"sync/atomic"
	"time"
)

func init() { vkChecks["C18"] = checkC18 }

// ---------------------------------------------------------------- readers / writers

// c18Dribble is a plain io.Reader (no ReadByte) that hands out one byte per Read.
type c18Dribble struct {
	b   []byte
	pos int
}

func (d *c18Dribble) Read(p []byte) (int, error) {
	if len(p) == 0 {
		return 0, nil
	}
	if d.pos >= len(d.b) {
		return 0, io.EOF
	}
	p[0] = d.b[d.pos]
	d.pos++
	return 1, nil
}

// c18PlainWriter is an io.Writer without WriteByte/WriteString.
type c18PlainWriter struct{ b []byte }

func (w *c18PlainWriter) Write(p []byte) (int, error) {
	w.b = append(w.b, p...)
	return len(p), nil
}

// c18Guard sits between the real decoder and the reader.  It keeps the
// logical position in the stream and protects the process: a fresh 4-byte read
// is a length/count prefix (binary.go readUint32 has no other use); when that
// prefix exceeds c18MaxLen the stream is misframed and the decoder would
// allocate up to 4 GiB for it, so the guard fails the read instead.
type c18Guard struct {
	in      io.Reader
	stream  []byte
	pos     int
	lastReq int
	lastN   int
}

const c18MaxLen = 1 << 20

type c18HugeLenError struct {
	v   uint32
	off int
}

func (e c18HugeLenError) Error() string {
	return fmt.Sprintf("length/count prefix %d (0x%x) at offset %d exceeds 1 MiB: the stream is misframed (the harness does not let the decoder allocate it)", e.v, e.v, e.off)
}

func (g *c18Guard) Read(p []byte) (int, error) {
	cont := g.lastN < g.lastReq && g.lastReq-g.lastN == len(p) // io.ReadFull continuing after a short read
	if len(p) == 4 && !cont && g.pos+4 <= len(g.stream) {
		if v := byteOrder.Uint32(g.stream[g.pos:]); v > c18MaxLen {
			return 0, c18HugeLenError{v, g.pos}
		}
	}
	n, err := g.in.Read(p)
	g.pos += n
	g.lastReq, g.lastN = len(p), n
	return n, err
}

func (g *c18Guard) remaining() int { return len(g.stream) - g.pos }

// c18GuardB additionally offers ReadByte (when the wrapped reader does).
type c18GuardB struct{ c18Guard }

func (g *c18GuardB) ReadByte() (byte, error) {
	b, err := g.in.(io.ByteReader).ReadByte()
	if err == nil {
		g.pos++
	}
	g.lastReq, g.lastN = 1, 1
	return b, err
}

// c18Reader builds reader kind rk over stream, behind the guard.
func c18Reader(rk int, stream []byte) (io.Reader, func() int) {
	switch rk {
	case c18ReaderBytes:
		g := &c18GuardB{c18Guard{in: bytes.NewReader(stream), stream: stream}}
		return g, g.remaining
	case c18ReaderBufio:
		g := &c18GuardB{c18Guard{in: bufio.NewReaderSize(bytes.NewReader(stream), 16), stream: stream}}
		return g, g.remaining
	}
	g := &c18Guard{in: &c18Dribble{b: stream}, stream: stream}
	return g, g.remaining
}

const (
	c18ReaderBytes = iota // *bytes.Reader (io.ByteReader; files read into memory, log entries)
	c18ReaderBufio        // *bufio.Reader with a 16-byte buffer (the wire; refills in the middle of fields)
	c18ReaderPlain        // plain io.Reader, 1 byte per Read (os.File-like: snapshot meta files)
	c18ReaderKinds
)

var c18ReaderNames = []string{"bytes.Reader", "bufio.Reader(16)", "plain-1-byte-reads"}
var c18TailNames = []string{"no-tail", "1-byte-tail", "message-tail"}

// ---------------------------------------------------------------- stats

type c18TypeStats struct {
	Fields     int    `json:"fields"`
	Strength   int    `json:"t"` // t-wise strength used; == fields means full product
	Full       bool   `json:"full_product"`
	ProductLog string `json:"full_product_size"`
	Generated  int64  `json:"generated"`
	Distinct   int64  `json:"distinct"`
	Prefixes   int64  `json:"prefixes"`
	Roundtrips int64  `json:"roundtrip_decodes"`
	MaxLen     int    `json:"max_encoding_len"`
}

type c18Stats struct {
	perType map[string]*c18TypeStats
	notes   map[string]int64
}

func c18NewStats() *c18Stats {
	return &c18Stats{perType: map[string]*c18TypeStats{}, notes: map[string]int64{}}
}

func (s *c18Stats) note(n string) { s.notes[n]++ }

func (s *c18Stats) typ(name string) *c18TypeStats {
	ts := s.perType[name]
	if ts == nil {
		ts = &c18TypeStats{}
		s.perType[name] = ts
	}
	return ts
}

func (s *c18Stats) merge(o *c18Stats) {
	for k, v := range o.perType {
		t := s.typ(k)
		t.Generated += v.Generated
		t.Distinct += v.Distinct
		t.Prefixes += v.Prefixes
		t.Roundtrips += v.Roundtrips
		if v.MaxLen > t.MaxLen {
			t.MaxLen = v.MaxLen
		}
	}
	for k, v := range o.notes {
		s.notes[k] += v
	}
}

// ---------------------------------------------------------------- distinct set

type c18Set struct {
	shards [256]struct {
		mu sync.Mutex
		m  map[[16]byte]struct{}
	}
}

func c18NewSet() *c18Set {
	s := &c18Set{}
	for i := range s.shards {
		s.shards[i].m = map[[16]byte]struct{}{}
	}
	return s
}

// add reports whether key was new.
func (s *c18Set) add(key string) bool {
	h := sha256.Sum256([]byte(key))
	var k [16]byte
	copy(k[:], h[:16])
	sh := &s.shards[h[31]]
	sh.mu.Lock()
	_, ok := sh.m[k]
	if !ok {
		sh.m[k] = struct{}{}
	}
	sh.mu.Unlock()
	return !ok
}

// ---------------------------------------------------------------- evaluation of one vector

type c18Failure struct {
	oracle string // stable oracle class
	detail string
	tail   int
	reader int
	cut    int
}

func c18SafeEncode(t *c18Type, v interface{}, w io.Writer) (err error) {
	defer func() {
		if p := recover(); p != nil {
			err = fmt.Errorf("encode panicked: %v", p)
		}
	}()
	return t.encode(v, w)
}

func c18SafeDecode(t *c18Type, exp interface{}, r io.Reader) (v interface{}, err error, panicked interface{}) {
	defer func() {
		if p := recover(); p != nil {
			panicked = p
		}
	}()
	v, err = t.decode(exp, r)
	return
}

type c18Evaluator struct {
	failed   int64 // failing vectors so far (atomic); the type is abandoned at c18FailBudget
	t        *c18Type
	other    []byte // a full message of the same type used as tail
	otherVal interface{}
	otherCan string
}

func c18NewEvaluator(t *c18Type) *c18Evaluator {
	ev := &c18Evaluator{t: t}
	ch := make([]int, len(t.fields))
	for i, f := range t.fields {
		ch[i] = f.b
	}
	ev.otherVal = t.build(ch)
	ev.otherCan = t.canon(ev.otherVal)
	var buf bytes.Buffer
	if err := c18SafeEncode(t, ev.otherVal, &buf); err != nil {
		panic(fmt.Sprintf("C18: cannot encode baseline of %s: %v", t.name, err))
	}
	ev.other = buf.Bytes()
	return ev
}

func (ev *c18Evaluator) compare(exp, got interface{}, expCanon string) string {
	if ev.t.equal != nil {
		return ev.t.equal(exp, got)
	}
	if g := ev.t.canon(got); g != expCanon {
		return "encoded " + c18Clip(expCanon) + " decoded " + c18Clip(g)
	}
	return ""
}

func c18Clip(s string) string {
	if len(s) > 400 {
		return s[:400] + "…"
	}
	return s
}

// roundtrip runs the encode + decode-with-tails oracles. It returns the
// encoding (nil if encoding failed), the canonical form and the failures.
func (ev *c18Evaluator) roundtrip(ch []int, st *c18Stats, ts *c18TypeStats) (enc []byte, canon string, fails []c18Failure) {
	t := ev.t
	v := t.build(ch)
	canon = t.canon(v)
	var buf bytes.Buffer
	if err := c18SafeEncode(t, v, &buf); err != nil {
		return nil, canon, []c18Failure{{oracle: "encode-error", detail: err.Error()}}
	}
	enc = buf.Bytes()
	// the encoding must be well-formed per the independent reference layout before any decoder sees it
	cur := &c18Cur{b: enc}
	c18Layout(t.name, v, cur)
	if cur.err != "" {
		return enc, canon, []c18Failure{{oracle: "encode-layout", cut: -1, detail: "the encoding is not well-formed per the reference layout: " + cur.err + "; encoding " + c18Hex(enc, 64)}}
	}
	// the same value through a writer without WriteByte must give the same bytes
	pw := &c18PlainWriter{}
	if err := c18SafeEncode(t, v, pw); err != nil {
		fails = append(fails, c18Failure{oracle: "encode-error", detail: "plain writer: " + err.Error()})
	} else if len(pw.b) != len(enc) || (!t.unordered && !bytes.Equal(pw.b, enc)) {
		fails = append(fails, c18Failure{oracle: "encode-writer-kind", detail: fmt.Sprintf("bytes.Buffer gave %d bytes, plain writer %d bytes / different content", len(enc), len(pw.b))})
	}
	for tail := 0; tail < 3; tail++ {
		var tb []byte
		switch tail {
		case 1:
			tb = []byte{0x5a}
		case 2:
			tb = ev.other
		}
		stream := make([]byte, 0, len(enc)+len(tb))
		stream = append(append(stream, enc...), tb...)
		for rk := 0; rk < c18ReaderKinds; rk++ {
			r, remaining := c18Reader(rk, stream)
			if ts != nil {
				ts.Roundtrips++
			}
			got, err, pan := c18SafeDecode(t, v, r)
			f := c18Failure{tail: tail, reader: rk, cut: -1}
			switch {
			case pan != nil:
				f.oracle, f.detail = "roundtrip-panic", fmt.Sprintf("decode panicked: %v", pan)
			case err != nil:
				f.oracle, f.detail = "roundtrip-error", "decode of a complete encoding failed: "+err.Error()
			default:
				if d := ev.compare(v, got, canon); d != "" {
					f.oracle, f.detail = "roundtrip-value", d
				} else if rem := remaining(); rem != len(tb) {
					f.oracle, f.detail = "framing", fmt.Sprintf("encoding has %d bytes, decoder consumed %d", len(enc), len(stream)-rem)
				} else if tail == 2 {
					// the second message of the stream must decode too, and exhaust the stream
					got2, err2, pan2 := c18SafeDecode(t, ev.otherVal, r)
					if pan2 != nil || err2 != nil {
						f.oracle, f.detail = "framing", fmt.Sprintf("second message of the stream: err=%v panic=%v", err2, pan2)
					} else if d := ev.compare(ev.otherVal, got2, ev.otherCan); d != "" {
						f.oracle, f.detail = "framing", "second message of the stream: "+d
					} else if remaining() != 0 {
						f.oracle, f.detail = "framing", "stream of two messages not exhausted exactly"
					}
				}
				if f.oracle == "" && tail == 0 && rk == 0 && t.observe != nil && st != nil {
					t.observe(v, got, st)
				}
			}
			if f.oracle != "" {
				f.detail = fmt.Sprintf("[%s, %s] %s", c18TailNames[tail], c18ReaderNames[rk], f.detail)
				fails = append(fails, f)
			}
		}
	}
	return enc, canon, fails
}

// prefixes decodes every proper prefix of enc; returns the first failure (smallest cut) if any.
func (ev *c18Evaluator) prefixes(ch []int, enc []byte, ts *c18TypeStats, plainToo bool) *c18Failure {
	t := ev.t
	v := t.build(ch)
	kinds := []int{c18ReaderBytes}
	if plainToo {
		kinds = append(kinds, c18ReaderPlain)
	}
	// the reader objects are reused for all cuts of this encoding
	br := bytes.NewReader(nil)
	gb := &c18GuardB{}
	dr := &c18Dribble{}
	gp := &c18Guard{}
	for cut := 0; cut < len(enc); cut++ {
		for _, rk := range kinds {
			var r io.Reader
			if rk == c18ReaderBytes {
				br.Reset(enc[:cut])
				gb.c18Guard = c18Guard{in: br, stream: enc[:cut]}
				r = gb
			} else {
				*dr = c18Dribble{b: enc[:cut]}
				*gp = c18Guard{in: dr, stream: enc[:cut]}
				r = gp
			}
			if ts != nil {
				ts.Prefixes++
			}
			got, err, pan := c18SafeDecode(t, v, r)
			if pan != nil {
				return &c18Failure{oracle: "prefix-panic", cut: cut, reader: rk,
					detail: fmt.Sprintf("decoding the first %d of %d bytes panicked: %v", cut, len(enc), pan)}
			}
			ok := err != nil
			if t.prefixOK != nil {
				ok = t.prefixOK(got, err)
			}
			if !ok {
				c := "?"
				func() {
					defer func() { recover() }()
					c = t.canon(got)
				}()
				return &c18Failure{oracle: "prefix-accepted", cut: cut, reader: rk,
					detail: fmt.Sprintf("decoding the first %d of %d bytes returned a value instead of a transport error: %s", cut, len(enc), c18Clip(c))}
			}
		}
	}
	return nil
}

func c18HasOracle(fails []c18Failure, oracle string) *c18Failure {
	for i := range fails {
		if fails[i].oracle == oracle {
			return &fails[i]
		}
	}
	return nil
}

// failsWith re-evaluates vector ch and tells whether it (still) fails with the given oracle class.
func (ev *c18Evaluator) failsWith(ch []int, oracle string) *c18Failure {
	enc, _, fails := ev.roundtrip(ch, nil, nil)
	if f := c18HasOracle(fails, oracle); f != nil {
		return f
	}
	if strings.HasPrefix(oracle, "prefix-") && enc != nil {
		if f := ev.prefixes(ch, enc, nil, true); f != nil && f.oracle == oracle {
			return f
		}
	}
	return nil
}

// shrink moves every field of a failing vector towards its simplest value while the same oracle keeps failing.
func (ev *c18Evaluator) shrink(ch []int, oracle string) ([]int, *c18Failure) {
	cur := append([]int(nil), ch...)
	last := ev.failsWith(cur, oracle)
	if last == nil {
		return cur, nil
	}
	for changed := true; changed; {
		changed = false
		for i := range cur {
			for c := 0; c < cur[i]; c++ {
				old := cur[i]
				cur[i] = c
				if f := ev.failsWith(cur, oracle); f != nil {
					last, changed = f, true
					break
				}
				cur[i] = old
			}
		}
	}
	return cur, last
}

// ---------------------------------------------------------------- t-wise enumeration

// c18Elem returns e_t(n_1..n_m): the number of vectors of all t-subsets' products.
func c18Elem(ns []int, t int) float64 {
	e := make([]float64, t+1)
	e[0] = 1
	for _, n := range ns {
		for j := t; j >= 1; j-- {
			e[j] += e[j-1] * float64(n)
		}
	}
	return e[t]
}

func c18Strength(t *c18Type, fullCap int) (strength int, full bool, product float64) {
	m := len(t.fields)
	ns := make([]int, m)
	product = 1
	for i, f := range t.fields {
		ns[i] = f.n
		product *= float64(f.n)
	}
	if product <= float64(fullCap) {
		return m, true, product
	}
	cp := t.cap
	strength = 2
	for s := m - 1; s > 2; s-- {
		if 2*c18Elem(ns, s) <= float64(cp) {
			strength = s
			break
		}
	}
	return strength, false, product
}

type c18Unit struct {
	ev     *c18Evaluator
	sub    []int // varying fields
	base   int   // 0: baseline A, 1: baseline B
	lo, hi int64 // index range within the product of sub
	gstart int64 // global index of the first vector (for deterministic samples)
}

func c18Subsets(m, k int, fn func(sub []int)) {
	sub := make([]int, k)
	var rec func(start, depth int)
	rec = func(start, depth int) {
		if depth == k {
			fn(append([]int(nil), sub...))
			return
		}
		for i := start; i <= m-(k-depth); i++ {
			sub[depth] = i
			rec(i+1, depth+1)
		}
	}
	rec(0, 0)
}

const c18UnitSize = 1024

// A type with this many failing vectors is abandoned (reported, run marked
// non-exhaustive): a systematic defect fails thousands of vectors, and
// decoding misframed streams is what makes a decoder allocate gigabytes.
const c18FailBudget = 64
const c18ShrinkBudget = 12

func c18Units(ev *c18Evaluator, strength int, full bool) (units []c18Unit, total int64) {
	t := ev.t
	m := len(t.fields)
	emit := func(sub []int, base int) {
		p := int64(1)
		for _, i := range sub {
			p *= int64(t.fields[i].n)
		}
		for lo := int64(0); lo < p; lo += c18UnitSize {
			hi := lo + c18UnitSize
			if hi > p {
				hi = p
			}
			units = append(units, c18Unit{ev: ev, sub: sub, base: base, lo: lo, hi: hi, gstart: total + lo})
		}
		total += p
	}
	if full {
		all := make([]int, m)
		for i := range all {
			all[i] = i
		}
		emit(all, 0)
		return
	}
	for base := 0; base < 2; base++ {
		base := base
		c18Subsets(m, strength, func(sub []int) { emit(sub, base) })
	}
	return
}

func (u *c18Unit) vector(x int64, ch []int) {
	t := u.ev.t
	for i, f := range t.fields {
		if u.base == 1 {
			ch[i] = f.b
		} else {
			ch[i] = 0
		}
	}
	for j := len(u.sub) - 1; j >= 0; j-- {
		n := int64(t.fields[u.sub[j]].n)
		ch[u.sub[j]] = int(x % n)
		x /= n
	}
}

// ---------------------------------------------------------------- driver

type c18Replay struct {
	Kind   string            `json:"kind"` // codec | value | pipeline
	Type   string            `json:"type,omitempty"`
	Choice []int             `json:"choice,omitempty"`
	Fields map[string]string `json:"fields,omitempty"`
	Oracle string            `json:"oracle,omitempty"`
	Tail   string            `json:"tail,omitempty"`
	Reader string            `json:"reader,omitempty"`
	Cut    int               `json:"cut,omitempty"`
	Hex    string            `json:"encoding_hex,omitempty"`
	Which  string            `json:"which,omitempty"` // value: identity | termvote
	V1     string            `json:"v1,omitempty"`
	V2     string            `json:"v2,omitempty"`
	Stream *c18StreamSpec    `json:"stream,omitempty"`
	Tier   string            `json:"tier,omitempty"`
}

type c18Witness struct {
	ch  []int
	key string
}

type c18Reporter struct {
	run *vkRun
	mu  sync.Mutex
	// known minimal witnesses per type+oracle: a failing vector that agrees with a
	// known witness on all of the witness' non-simplest fields is attributed to it
	// without shrinking again (keeps an all-failing mutant run fast).
	wit map[string][]c18Witness
	// deferred prefix failures per type: vector -> first failing cut
	prefixFails map[string][]c18PrefixFail
}

type c18PrefixFail struct {
	gidx int64
	ch   []int
	f    c18Failure
}

func (rp *c18Reporter) covered(t *c18Type, oracle string, ch []int) string {
	rp.mu.Lock()
	defer rp.mu.Unlock()
	for _, w := range rp.wit[t.name+"\x00"+oracle] {
		ok := true
		for i, c := range w.ch {
			if c != 0 && ch[i] != c {
				ok = false
				break
			}
		}
		if ok {
			return w.key
		}
	}
	return ""
}

func (rp *c18Reporter) report(ev *c18Evaluator, ch []int, f c18Failure, tier string, nth int64) {
	t := ev.t
	if key := rp.covered(t, f.oracle, ch); key != "" {
		rp.run.Violation(key, "", nil)
		return
	}
	if nth > c18ShrinkBudget {
		rp.run.Violation(t.name+":"+f.oracle+":(further failing vectors, not shrunk)", fmt.Sprintf("%s %v: %s", t.name, t.describe(ch), f.detail), nil)
		return
	}
	min, mf := ev.shrink(ch, f.oracle)
	if mf == nil { // not reproducible on re-evaluation (should not happen: everything is deterministic)
		min, mf = ch, &f
	}
	key := t.name + ":" + f.oracle + ":" + t.witness(min)
	defer func() { // register the witness only after the violation (with its description) is recorded
		rp.mu.Lock()
		k := t.name + "\x00" + f.oracle
		dup := false
		for _, w := range rp.wit[k] {
			if w.key == key {
				dup = true
			}
		}
		if !dup {
			rp.wit[k] = append(rp.wit[k], c18Witness{ch: min, key: key})
		}
		rp.mu.Unlock()
	}()
	rep := c18Replay{Kind: "codec", Type: t.name, Choice: min, Fields: t.describe(min), Oracle: f.oracle, Cut: mf.cut, Tier: tier}
	if mf.cut < 0 {
		rep.Tail, rep.Reader = c18TailNames[mf.tail], c18ReaderNames[mf.reader]
	}
	var buf bytes.Buffer
	if c18SafeEncode(t, t.build(min), &buf) == nil {
		rep.Hex = c18Hex(buf.Bytes(), 256)
	}
	rp.run.Violation(key, fmt.Sprintf("%s %v: %s", t.name, t.describe(min), mf.detail), rep)
}

func c18Hex(b []byte, max int) string {
	if len(b) > max {
		return hex.EncodeToString(b[:max]) + fmt.Sprintf("…(%d bytes)", len(b))
	}
	return hex.EncodeToString(b)
}

type c18Sample struct {
	Type   string            `json:"type"`
	Fields map[string]string `json:"fields"`
	Len    int               `json:"encoding_len"`
	Hex    string            `json:"encoding_hex"`
	Checks string            `json:"checks"`
}

func checkC18(args []string) int {
	if f := vkArg(args, "replay", ""); f != "" {
		return c18RunReplay(f, args)
	}
	tier := vkTier(args)
	thorough := tier == "thorough"
	run := vkNewRun("C18", tier, "exploration")
	workers := vkArgInt(args, "workers", runtime.NumCPU())
	if workers < 1 {
		workers = 1
	}
	// generated-vector caps per type: the full product whenever it has at most fullCap vectors,
	// else t-wise with the largest t >= 2 that generates at most twiseCap (bigCap for the long Info encodings) vectors.
	fullCap := 1000000
	twiseCap, bigCap := 350000, 200000
	if thorough {
		twiseCap, bigCap = 1000000, 300000
	}
	if c := vkArgInt(args, "cap", 0); c > 0 {
		twiseCap, bigCap = c, c
	}
	debug.SetGCPercent(400)
	debug.SetMemoryLimit(6 << 30) // soft: keeps the heap of a decoder that misreads lengths (mutants) from growing freely
	filter := vkArg(args, "types", "")

	types := c18Types(thorough)
	rp := &c18Reporter{run: run, wit: map[string][]c18Witness{}, prefixFails: map[string][]c18PrefixFail{}}
	total := c18NewStats()
	var units []c18Unit
	sets := map[string]*c18Set{}
	sampleAt := map[string]int64{}
	var typeNames []string
	for _, t := range types {
		if filter != "" && !strings.Contains(t.name, filter) {
			continue
		}
		if t.cap == 0 {
			t.cap = twiseCap
			if strings.Contains(t.name, "Info") {
				t.cap = bigCap // long encodings (many prefixes per case)
			}
		}
		ev := c18NewEvaluator(t)
		strength, full, product := c18Strength(t, fullCap)
		us, n := c18Units(ev, strength, full)
		units = append(units, us...)
		ts := total.typ(t.name)
		ts.Fields, ts.Strength, ts.Full, ts.ProductLog = len(t.fields), strength, full, fmt.Sprintf("%.3g", product)
		sets[t.name] = c18NewSet()
		sampleAt[t.name] = n / 2
		typeNames = append(typeNames, t.name)
	}

	// memory watchdog: a decoder that misreads a length prefix can allocate gigabytes per call
	run.Cov["exhaustive"] = false
	stopWatch := make(chan struct{})
	go func() {
		for {
			select {
			case <-stopWatch:
				return
			case <-time.After(20 * time.Millisecond):
			}
			if rss := c18RSS(); rss > 16<<30 {
				run.Violation("codec:decoder-memory-blowup", fmt.Sprintf("resident memory reached %d MiB while decoding: some decoder allocates according to a misread length prefix; run aborted", rss>>20), nil)
				run.Cov["aborted"] = "memory watchdog"
				run.Finish()
				c18RemoveAllScratch()
				os.Exit(1)
			}
		}
	}()
	defer close(stopWatch)

	var smu sync.Mutex
	samples := map[string]c18Sample{}
	unitCh := make(chan *c18Unit, 256)
	var wg sync.WaitGroup
	var mergeMu sync.Mutex
	for w := 0; w < workers; w++ {
		wg.Add(1)
		go func() {
			defer wg.Done()
			st := c18NewStats()
			for u := range unitCh {
				t := u.ev.t
				ts := st.typ(t.name)
				set := sets[t.name]
				ch := make([]int, len(t.fields))
				for x := u.lo; x < u.hi; x++ {
					if atomic.LoadInt64(&u.ev.failed) >= c18FailBudget {
						break // type abandoned
					}
					u.vector(x, ch)
					ts.Generated++
					enc, canon, fails := u.ev.roundtrip(ch, st, ts)
					if len(fails) > 0 {
						nth := atomic.AddInt64(&u.ev.failed, 1)
						seen := map[string]bool{}
						for _, f := range fails {
							if !seen[f.oracle] {
								seen[f.oracle] = true
								rp.report(u.ev, ch, f, tier, nth)
							}
						}
						continue // no prefix checks on an encoding that does not even round-trip
					}
					if enc == nil {
						continue
					}
					if len(enc) > ts.MaxLen {
						ts.MaxLen = len(enc)
					}
					first := set.add(canon)
					if first {
						ts.Distinct++
						if pf := u.ev.prefixes(ch, enc, ts, thorough); pf != nil {
							atomic.AddInt64(&u.ev.failed, 1)
							rp.mu.Lock()
							rp.prefixFails[t.name] = append(rp.prefixFails[t.name], c18PrefixFail{u.gstart + (x - u.lo), append([]int(nil), ch...), *pf})
							rp.mu.Unlock()
						}
					}
					if u.gstart+(x-u.lo) == sampleAt[t.name] {
						smu.Lock()
						samples[t.name] = c18Sample{Type: t.name, Fields: t.describe(ch), Len: len(enc), Hex: c18Hex(enc, 96),
							Checks: fmt.Sprintf("3 tails x 3 reader kinds round trip; %d proper prefixes", len(enc))}
						smu.Unlock()
					}
				}
			}
			mergeMu.Lock()
			total.merge(st)
			mergeMu.Unlock()
		}()
	}
	for i := range units {
		unitCh <- &units[i]
	}
	close(unitCh)
	wg.Wait()

	// deferred: shrink the first prefix failures of every type (by enumeration order)
	evByName := map[string]*c18Evaluator{}
	for i := range units {
		evByName[units[i].ev.t.name] = units[i].ev
	}
	for _, name := range typeNames {
		pfs := rp.prefixFails[name]
		if len(pfs) == 0 {
			continue
		}
		sort.Slice(pfs, func(i, j int) bool { return pfs[i].gidx < pfs[j].gidx })
		for i, pf := range pfs {
			if i < 8 {
				rp.report(evByName[name], pf.ch, pf.f, tier, int64(i))
			} else if key := rp.covered(evByName[name].t, pf.f.oracle, pf.ch); key != "" {
				run.Violation(key, "", nil)
			} else {
				run.Violation(name+":"+pf.f.oracle+":(further failing vectors, not shrunk)", pf.f.detail, nil)
			}
		}
	}

	// the disk / server-path parts
	disk := c18DiskResult{}
	if filter == "" || strings.Contains("pipeline", filter) {
		c18Pipeline(run, &disk, thorough, workers)
	}
	if filter == "" || strings.Contains("value", filter) {
		c18ValueFiles(run, &disk, workers)
	}

	var abandoned []string
	for _, name := range typeNames {
		if atomic.LoadInt64(&evByName[name].failed) >= c18FailBudget {
			abandoned = append(abandoned, name)
		}
	}

	// ---- evidence
	var gen, dist, pref, rts int64
	per := map[string]interface{}{}
	fullTypes, twiseTypes := 0, 0
	for _, n := range typeNames {
		ts := total.perType[n]
		gen += ts.Generated
		dist += ts.Distinct
		pref += ts.Prefixes
		rts += ts.Roundtrips
		per[n] = ts
		if ts.Full {
			fullTypes++
		} else {
			twiseTypes++
		}
	}
	var sampleList []interface{}
	for _, n := range typeNames {
		if s, ok := samples[n]; ok && (len(sampleList) < 12 || strings.HasPrefix(n, "taskResp.err")) {
			sampleList = append(sampleList, s)
		}
	}
	for _, s := range disk.Samples {
		sampleList = append(sampleList, s)
	}
	notes := []string{}
	for n, c := range total.notes {
		notes = append(notes, fmt.Sprintf("%s [%d cases]", n, c))
	}
	sort.Strings(notes)
	run.Cov["evaluations"] = gen + disk.ValuePairs + disk.Streams
	run.Cov["distinct_nontrivial"] = dist + disk.ValuePairsDistinct + disk.StreamsDistinct
	run.Cov["rule"] = "codec: per message/record type a choice vector selects one value per field from boundary domains " +
		"(uint64 {0,1,2^63-1,2^63,2^64-1}; int64 size {0,1,2^63-1,-2^63,-1} i.e. the same wire patterns; strings {\"\",1B,300B}; " +
		"entry data {nil,empty,1B,300B}; bools; every enum value + invalid ones; node/follower id tuples = all k-permutations of the integer domain; " +
		"Unreachable {nil,+1ns,+2^63-1ns,-1ns,a 2023 instant}; no struct has a uint32 field, uint32 occurs only as length/count prefix: lengths 0/1/300, counts 0..3(4)). " +
		"Types with full_product=true enumerate the complete product of all field domains; for the others (product above the per-type cap of " +
		fmt.Sprintf("%d vectors", fullCap) + ") t-wise: for EVERY t-subset of fields (t per type in per_type, always >= 2: the largest t generating at most " + fmt.Sprintf("%d vectors, %d for the long Info shapes", twiseCap, bigCap) + ") the full product of those fields' domains " +
		"with all remaining fields at baseline A (all simplest) and again at baseline B (2^64-1, 1-byte strings, true, last valid enum, last id tuple). " +
		"Every generated vector: real encode, then real decode of encoding++tail for 3 tails (none, 1 byte, a second full message which is decoded as well) x 3 reader kinds " +
		"(bytes.Reader, 16-byte bufio.Reader, plain 1-byte reads); value compared in canonical form (maps sorted, nil==empty, errors by kind+text, task errors as the statement demands) and consumed byte count compared with the encoding length. " +
		"distinct_nontrivial counts DISTINCT canonical values whose encoding reached the decoder (duplicates arise from overlapping t-wise blocks and nil/empty twins) plus distinct value-file pairs and distinct pipelined streams; " +
		"each distinct encoding additionally has EVERY proper prefix decoded (must give an error / transport error, no panic). " +
		"pipeline: " + disk.StreamRule + " value files: " + disk.ValueRule
	run.Cov["samples"] = sampleList
	run.Cov["exhaustive"] = filter == "" && disk.Complete && len(abandoned) == 0
	if len(abandoned) > 0 {
		run.Cov["types_abandoned_after_failures"] = abandoned
	}
	run.Cov["exhaustive_scope"] = fmt.Sprintf("the enumeration defined in rule was completed: complete field-domain product for %d types, complete t-wise design (every t-subset x both baselines) for %d types whose product exceeds the cap, every stream spec, every value pair; it is not the complete product for the t-wise types", fullTypes, twiseTypes)
	run.Cov["per_type"] = per
	run.Cov["types"] = len(typeNames)
	run.Cov["types_full_product"] = fullTypes
	run.Cov["types_twise"] = twiseTypes
	run.Cov["codec_vectors"] = gen
	run.Cov["codec_distinct"] = dist
	run.Cov["prefixes_checked"] = pref
	run.Cov["tails_checked"] = rts
	run.Cov["decode_calls"] = pref + rts + disk.Decodes
	run.Cov["value_pairs_checked"] = disk.ValuePairs
	run.Cov["value_pairs_rejected_by_SetIdentity"] = disk.ValueRejected
	run.Cov["pipeline_streams"] = disk.Streams
	run.Cov["pipeline_entries"] = disk.StreamEntries
	run.Cov["pipeline_entry_not_buffered_hits"] = disk.NotBuffered
	run.Cov["pipeline_entry_buffered_hits"] = disk.Buffered
	run.Cov["observations"] = notes
	run.Cov["workers"] = workers
	run.Assumptions = []string{
		"Input values are the Go values the library itself can produce: Config.Nodes keys equal Node.ID; Replication.Err/ErrMessage consistent as built by Raft.info(); resp.err is nil unless result==unexpectedErr and non-nil then (rpcType.createResp); OpError.Op non-empty on the rpc wire (\"\" is the wire marker for a plain error).",
		"Replication.Unreachable exactly at the Unix epoch instant (UnixNano()==0) is outside the domain: the wire uses 0 as the nil marker and Raft.info() only sends time.Now()-derived instants; instants outside the int64-nanosecond range are outside the domain as well.",
		"Task responses: sentinel (plainError/temporaryError) and NotLeaderError must come back == to the original, InProgressError by dynamic type, every other error (TimeoutError, OpError, fmt errors) by text only — what the statement lists; result values are paired with the task type that produces them.",
		"Truncation is modelled as EOF after a proper prefix (a closed connection / short file), not as a stalled connection.",
		"Map iteration order of Config.Nodes/Info.Followers during encode is whatever the Go runtime chooses in this run; the decoder must accept every order, not every order is forced.",
	}
	if disk.ScratchErr != "" {
		run.Assumptions = append(run.Assumptions, "scratch problem: "+disk.ScratchErr)
	}
	return run.Finish()
}

// ---------------------------------------------------------------- replay

func c18RunReplay(file string, args []string) int {
	b, err := ioutil.ReadFile(file)
	if err != nil {
		fmt.Fprintln(os.Stderr, "C18 replay:", err)
		return 2
	}
	var art struct {
		Key    string    `json:"key"`
		Tier   string    `json:"tier"`
		Replay c18Replay `json:"replay"`
	}
	if err := json.Unmarshal(b, &art); err != nil {
		fmt.Fprintln(os.Stderr, "C18 replay:", err)
		return 2
	}
	rep := art.Replay
	if rep.Kind == "" { // a bare replay object
		if err := json.Unmarshal(b, &rep); err != nil || rep.Kind == "" {
			fmt.Fprintln(os.Stderr, "C18 replay: no replay object in", file)
			return 2
		}
	}
	var found []string
	switch rep.Kind {
	case "codec":
		var t *c18Type
		for _, c := range c18Types(true) {
			if c.name == rep.Type {
				t = c
			}
		}
		if t == nil || len(rep.Choice) != len(t.fields) {
			fmt.Fprintln(os.Stderr, "C18 replay: unknown type or wrong vector length:", rep.Type)
			return 2
		}
		for i, c := range rep.Choice {
			if c < 0 || c >= t.fields[i].n {
				fmt.Fprintln(os.Stderr, "C18 replay: choice out of domain for field", t.fields[i].name)
				return 2
			}
		}
		ev := c18NewEvaluator(t)
		fmt.Printf("replaying %s %v\n", t.name, t.describe(rep.Choice))
		enc, _, fails := ev.roundtrip(rep.Choice, nil, nil)
		fmt.Printf("  encoding (%d bytes): %s\n", len(enc), c18Hex(enc, 256))
		for _, f := range fails {
			found = append(found, fmt.Sprintf("%s:%s:%s — %s", t.name, f.oracle, t.witness(rep.Choice), f.detail))
		}
		if enc != nil && len(fails) == 0 { // a broken encoding is not fed to the decoders again
			if pf := ev.prefixes(rep.Choice, enc, nil, true); pf != nil {
				found = append(found, fmt.Sprintf("%s:%s:%s — %s", t.name, pf.oracle, t.witness(rep.Choice), pf.detail))
			}
		}
	case "value":
		found = c18ReplayValue(rep)
	case "pipeline":
		found = c18ReplayStream(rep)
	default:
		fmt.Fprintln(os.Stderr, "C18 replay: unknown kind", rep.Kind)
		return 2
	}
	if len(found) == 0 {
		fmt.Println("C18 replay: the case passes (not reproduced)")
		return 0
	}
	for _, f := range found {
		fmt.Println("VIOLATION-REPRODUCED property=C18", f)
	}
	return 1
}

// c18RSS returns the resident set size of this process in bytes (0 if unknown).
func c18RSS() int64 {
	b, err := ioutil.ReadFile("/proc/self/statm")
	if err != nil {
		return 0
	}
	f := strings.Fields(string(b))
	if len(f) < 2 {
		return 0
	}
	var pages int64
	fmt.Sscan(f[1], &pages)
	return pages * int64(os.Getpagesize())
}
