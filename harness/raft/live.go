//go:build verif
// +build verif

package raft

// E-LIVE (DESIGN.md 2.5): free-running passes, supplementary to the
// exhaustive checks.  Real clusters (real Serve, real server.handleConn, real
// replication.runLoop with its pipeline goroutines, real timers in the
// millisecond range) over an in-memory network.  Used for
//  (i)  the data-race clause of C15: the same scripts run under a -race build
//       (the cooperative explorer's hand-offs are happens-before edges that
//       blind the detector);
//  (ii) conformance of the replication driver skeleton: every stream of the
//       real replication goroutine is recorded through the verifReplEvent hook
//       and must be accepted by the skeleton automaton (liveAcceptTrace), and
//       the final state of each script must equal the one the lock-step world
//       reaches for the same script.
// Nothing here decides a property by itself except a race report (the
// detector has no false positives); absence of a report proves nothing.

import (
	"bytes"
	"context"
	"encoding/json"
	"errors"
	"fmt"
	"io"
	"io/ioutil"
	"net"
	"os"
	"os/exec"
	"path/filepath"
	"runtime"
	"sort"
	"strings"
	"sync"
	"time"
)

// ---------------------------------------------------------------- network

type liveNet struct {
	mu        sync.Mutex
	listeners map[string]*liveListener
	blocked   map[string]bool // address that cannot be reached
}

type liveListener struct {
	addr   string
	ch     chan net.Conn
	closed chan struct{}
	once   sync.Once
}

func (l *liveListener) Accept() (net.Conn, error) {
	select {
	case c := <-l.ch:
		return c, nil
	case <-l.closed:
		return nil, errors.New("live: listener closed")
	}
}
func (l *liveListener) Close() error   { l.once.Do(func() { close(l.closed) }); return nil }
func (l *liveListener) Addr() net.Addr { return simAddr(l.addr) }

func (n *liveNet) listen(addr string) *liveListener {
	l := &liveListener{addr: addr, ch: make(chan net.Conn), closed: make(chan struct{})}
	n.mu.Lock()
	n.listeners[addr] = l
	n.mu.Unlock()
	return l
}

func (n *liveNet) dial(network, address string, timeout time.Duration) (net.Conn, error) {
	n.mu.Lock()
	l := n.listeners[address]
	bl := n.blocked[address]
	n.mu.Unlock()
	if l == nil || bl {
		return nil, errSimRefused
	}
	a, b := net.Pipe()
	t := time.NewTimer(timeout)
	defer t.Stop()
	select {
	case l.ch <- b:
		return a, nil
	case <-l.closed:
		return nil, errSimRefused
	case <-t.C:
		return nil, errors.New("live: dial timeout")
	}
}

// ---------------------------------------------------------------- fsm

type liveFSM struct {
	mu    sync.Mutex
	state []string
}

func (f *liveFSM) Update(cmd []byte) interface{} {
	f.mu.Lock()
	defer f.mu.Unlock()
	f.state = append(f.state, simPayloadID(cmd))
	return len(f.state)
}
func (f *liveFSM) Read(cmd interface{}) interface{} { return f.snapshot() }
func (f *liveFSM) snapshot() []string {
	f.mu.Lock()
	defer f.mu.Unlock()
	return append([]string(nil), f.state...)
}
func (f *liveFSM) Snapshot() (FSMState, error) { return recFSMState{f.snapshot()}, nil }
func (f *liveFSM) Restore(r io.Reader) error {
	b, err := ioutil.ReadAll(r)
	if err != nil {
		return err
	}
	var st []string
	if len(bytes.TrimSpace(b)) > 0 {
		if err := json.Unmarshal(b, &st); err != nil {
			return err
		}
	}
	f.mu.Lock()
	f.state = st
	f.mu.Unlock()
	return nil
}

// ---------------------------------------------------------------- cluster

type liveNode struct {
	id   uint64
	addr string
	dir  string
	r    *Raft
	fsm  *liveFSM
	lis  *liveListener
	done chan error
}

type liveCluster struct {
	net   *liveNet
	root  string
	nodes map[uint64]*liveNode
	opt   Options
}

func newLiveCluster(n int, pad int) (*liveCluster, error) {
	c := &liveCluster{
		net:   &liveNet{listeners: map[string]*liveListener{}, blocked: map[string]bool{}},
		root:  vkScratch("live"),
		nodes: map[uint64]*liveNode{},
		opt: Options{HeartbeatTimeout: 60 * time.Millisecond, PromoteThreshold: 60 * time.Millisecond, Bandwidth: 1 << 20,
			LogSegmentSize: 1024, SnapshotsRetain: 1, ShutdownOnRemove: true},
	}
	cfg := Config{Nodes: map[uint64]Node{}, Index: 1, Term: 1}
	for i := 1; i <= n; i++ {
		cfg.Nodes[uint64(i)] = Node{ID: uint64(i), Addr: fmt.Sprintf("l%d:%d", i, 7000+i), Voter: true}
	}
	for i := 1; i <= n; i++ {
		nd := &liveNode{id: uint64(i), addr: cfg.Nodes[uint64(i)].Addr, dir: filepath.Join(c.root, fmt.Sprintf("n%d", i))}
		if err := os.MkdirAll(nd.dir, 0700); err != nil {
			return c, err
		}
		if err := SetIdentity(nd.dir, 9, nd.id); err != nil {
			return c, err
		}
		st, err := openStorage(nd.dir, c.opt)
		if err != nil {
			return c, err
		}
		if err := st.bootstrap(cfg.clone()); err != nil {
			return c, err
		}
		if err := st.log.Close(); err != nil {
			return c, err
		}
		c.nodes[nd.id] = nd
	}
	return c, nil
}

func (c *liveCluster) start(id uint64) error {
	nd := c.nodes[id]
	nd.fsm = &liveFSM{}
	r, err := New(c.opt, nd.fsm, nd.dir)
	if err != nil {
		return err
	}
	r.dialFn = c.net.dial
	nd.r = r
	nd.lis = c.net.listen(nd.addr)
	nd.done = make(chan error, 1)
	go func() { nd.done <- r.Serve(nd.lis) }()
	return nil
}

func (c *liveCluster) stop(id uint64) error {
	nd := c.nodes[id]
	if nd.r == nil {
		return nil
	}
	ctx, cancel := context.WithTimeout(context.Background(), 20*time.Second)
	defer cancel()
	if err := nd.r.Shutdown(ctx); err != nil {
		return fmt.Errorf("node %d: shutdown: %v", id, err)
	}
	err := <-nd.done
	c.net.mu.Lock()
	delete(c.net.listeners, nd.addr)
	c.net.mu.Unlock()
	_ = nd.lis.Close()
	nd.r = nil
	if err != ErrServerClosed && err != ErrNodeRemoved {
		return fmt.Errorf("node %d: Serve returned %v", id, err)
	}
	return nil
}

func (c *liveCluster) close() {
	for id := range c.nodes {
		_ = c.stop(id)
	}
	_ = os.RemoveAll(c.root)
}

func (c *liveCluster) info(id uint64) (Info, error) {
	nd := c.nodes[id]
	if nd.r == nil {
		return Info{}, errors.New("down")
	}
	t := GetInfo()
	select {
	case nd.r.Tasks() <- t:
	case <-time.After(5 * time.Second):
		return Info{}, errors.New("GetInfo not accepted")
	}
	select {
	case <-t.Done():
	case <-time.After(5 * time.Second):
		return Info{}, errors.New("GetInfo not answered")
	}
	if t.Err() != nil {
		return Info{}, t.Err()
	}
	return t.Result().(Info), nil
}

func (c *liveCluster) leader(timeout time.Duration) (uint64, error) {
	deadline := time.Now().Add(timeout)
	for time.Now().Before(deadline) {
		for id, nd := range c.nodes {
			if nd.r == nil {
				continue
			}
			if inf, err := c.info(id); err == nil && inf.State == Leader {
				return id, nil
			}
		}
		time.Sleep(10 * time.Millisecond)
	}
	return 0, errors.New("no leader elected")
}

func (c *liveCluster) update(payload string, timeout time.Duration) error {
	deadline := time.Now().Add(timeout)
	for time.Now().Before(deadline) {
		ldr, err := c.leader(time.Until(deadline))
		if err != nil {
			return err
		}
		t := UpdateFSM([]byte(payload + "|" + strings.Repeat("x", 275)))
		select {
		case c.nodes[ldr].r.FSMTasks() <- t:
		case <-time.After(time.Second):
			continue
		}
		select {
		case <-t.Done():
			if t.Err() == nil {
				return nil
			}
			if _, ok := t.Err().(NotLeaderError); ok {
				// may or may not have been applied: look before retrying
				time.Sleep(20 * time.Millisecond)
				for _, nd := range c.nodes {
					if nd.r != nil {
						for _, p := range nd.fsm.snapshot() {
							if p == payload {
								return nil
							}
						}
					}
				}
				continue
			}
			return t.Err()
		case <-time.After(5 * time.Second):
			return errors.New("update not answered")
		}
	}
	return errors.New("update timed out")
}

// converge waits until every running node has applied want updates.
func (c *liveCluster) converge(want int, timeout time.Duration) error {
	deadline := time.Now().Add(timeout)
	var last string
	for time.Now().Before(deadline) {
		ok := true
		last = ""
		for id, nd := range c.nodes {
			if nd.r == nil {
				continue
			}
			n := len(nd.fsm.snapshot())
			last += fmt.Sprintf("n%d=%d ", id, n)
			if n != want {
				ok = false
			}
		}
		if ok {
			return nil
		}
		time.Sleep(10 * time.Millisecond)
	}
	return fmt.Errorf("no convergence to %d applied updates: %s", want, last)
}

// ---------------------------------------------------------------- stream traces

type liveStreamEvent struct {
	Name string
	A, B uint64
}

type liveTraces struct {
	mu      sync.Mutex
	streams map[*replication][]liveStreamEvent
}

func (t *liveTraces) install() func() {
	prev := verifHooks.replEvent
	verifHooks.replEvent = func(r *replication, name string, a, b uint64) {
		t.mu.Lock()
		t.streams[r] = append(t.streams[r], liveStreamEvent{name, a, b})
		t.mu.Unlock()
	}
	return func() { verifHooks.replEvent = prev }
}

// liveAcceptTrace checks one recorded stream of the REAL replication goroutine
// against the skeleton the E-SIM driver implements (DESIGN.md 2.3):
//   - a request without entries in PROBE has prev == next-1; entries are only
//     sent in PIPE; a PIPE request has prev == next-1 and advances next by n;
//   - PIPE is entered only after a success response with match+1 == next, or
//     after a snapshot;
//   - after a rejecting response next moves down by at least one;
//   - match never decreases and never exceeds the last index sent.
//
// It returns "" if the skeleton accepts the trace.
func liveAcceptTrace(start uint64, tr []liveStreamEvent) string {
	next, match := start, uint64(0)
	pipe := false
	var outstanding []uint64 // last index of requests in flight
	for i, e := range tr {
		switch e.Name {
		case "append.sent":
			prev, n := e.A, e.B
			// (the hook fires before the bytes are written: a write that fails does not advance
			// nextIndex in the real code, so a request without entries below next-1 is the probe
			// of a new connection after such a failure)
			if n > 0 && !pipe {
				return fmt.Sprintf("event %d: entries sent outside the pipeline (prev %d n %d)", i, prev, n)
			}
			if n == 0 && prev+1 < next {
				pipe = false
				outstanding = nil
			}
			if !pipe {
				// probe: the real code may lower next between probes; it never probes above next-1
				if prev+1 > next {
					return fmt.Sprintf("event %d: probe at prev %d above next-1 (next %d)", i, prev, next)
				}
				next = prev + 1
			} else if prev+1 != next {
				return fmt.Sprintf("event %d: pipelined request prev %d != next-1 (next %d)", i, prev, next)
			}
			next += n
			outstanding = append(outstanding, prev+n)
		case "append.resp":
			res, reqLast := rpcResult(e.A), e.B
			if len(outstanding) > 0 {
				outstanding = outstanding[1:]
			}
			switch res {
			case success:
				if reqLast > match {
					match = reqLast
				}
				if match >= next {
					return fmt.Sprintf("ACKED-MORE-THAN-SENT event %d: a success response was booked as covering index %d although only entries below %d have been sent on this stream", i, match, next)
				}
				if !pipe && match+1 == next {
					pipe = true
				}
			case prevEntryNotFound, prevTermMismatch:
				pipe = false
				outstanding = nil
				// next is recomputed by the real code; the next probe shows it
			case staleTerm:
				return ""
			}
		case "snap.sent":
			pipe = false
			outstanding = nil
			if e.A+1 > next {
				next = e.A + 1
			}
			if e.A > match {
				match = e.A
			}
		}
	}
	return ""
}

// ---------------------------------------------------------------- scripts

type liveResult struct {
	Script    string   `json:"script"`
	OK        bool     `json:"ok"`
	Problem   string   `json:"problem,omitempty"`
	Fact      string   `json:"fact,omitempty"` // decisive evidence that does not depend on timing ("key: description")
	Streams   int      `json:"streams"`
	Events    int      `json:"stream_events"`
	Rejected  []string `json:"rejected_traces,omitempty"`
	Final     []string `json:"final_fsm"`
	Snapshots int      `json:"snapshots_installed"`
	WallMs    int64    `json:"wall_ms"`
}

// liveScript runs one scripted scenario on a real cluster.
func liveScript(name string) (res liveResult) {
	res.Script = name
	t0 := time.Now()
	defer func() { res.WallMs = time.Since(t0).Milliseconds() }()
	tr := &liveTraces{streams: map[*replication][]liveStreamEvent{}}
	restore := tr.install()
	defer restore()
	fail := func(format string, a ...interface{}) liveResult {
		res.Problem = fmt.Sprintf(format, a...)
		return res
	}
	n := 3
	if name == "snap2" {
		n = 5
	}
	c, err := newLiveCluster(n, 275)
	defer c.close()
	if err != nil {
		return fail("cluster: %v", err)
	}
	up := []uint64{1, 2, 3}
	for _, id := range up {
		if err := c.start(id); err != nil {
			return fail("start %d: %v", id, err)
		}
	}
	if _, err := c.leader(10 * time.Second); err != nil {
		return fail("%v", err)
	}
	updates := 0
	put := func(k int) error {
		for i := 0; i < k; i++ {
			updates++
			if err := c.update(fmt.Sprintf("u%d", updates), 10*time.Second); err != nil {
				return err
			}
		}
		return nil
	}
	switch name {
	case "basic":
		if err := put(6); err != nil {
			return fail("update: %v", err)
		}
	case "restart":
		if err := put(3); err != nil {
			return fail("update: %v", err)
		}
		ldr, _ := c.leader(5 * time.Second)
		if err := c.stop(ldr); err != nil {
			return fail("%v", err)
		}
		if err := put(3); err != nil {
			return fail("update after leader stop: %v", err)
		}
		if err := c.start(ldr); err != nil {
			return fail("restart: %v", err)
		}
	case "manyconns":
		// a node that holds more inbound connections than any internal channel has slots (30 verified connections,
		// as a large cluster or many pooled connections produce) is shut down
		if err := put(1); err != nil {
			return fail("update: %v", err)
		}
		ldr, _ := c.leader(5 * time.Second)
		victim := up[0]
		if victim == ldr {
			victim = up[1]
		}
		var held []*conn
		defer func() {
			for _, hc := range held {
				if hc.rwc != nil {
					_ = hc.rwc.Close()
				}
			}
		}()
		for i := 0; i < 30; i++ {
			hc, err := dial(c.net.dial, c.nodes[victim].addr, 5*time.Second)
			if err != nil {
				return fail("dial %d: %v", i, err)
			}
			resp := &identityResp{}
			if err := hc.doRPC(&identityReq{req: req{src: ldr}, cid: 9, nid: victim}, resp, time.Now().Add(10*time.Second)); err != nil || resp.result != success {
				return fail("handshake %d: %v %v", i, err, resp.result)
			}
			held = append(held, hc)
		}
		if err := put(1); err != nil {
			return fail("update: %v", err)
		}
		nd := c.nodes[victim]
		ctx, cancel := context.WithTimeout(context.Background(), 45*time.Second)
		err := nd.r.Shutdown(ctx)
		cancel()
		if err != nil {
			// not a verdict by itself (a slow machine): look for the fact - connection handlers blocked in a
			// channel send that nobody will ever receive
			buf := make([]byte, 4<<20)
			buf = buf[:runtime.Stack(buf, true)]
			blocked := 0
			for _, g := range strings.Split(string(buf), "\n\n") {
				if strings.Contains(g, "[chan send") && strings.Contains(g, "(*server).handleConn") {
					blocked++
				}
			}
			if blocked > 0 {
				res.Fact = fmt.Sprintf("shutdown-blocked:handleConn-chan-send: Shutdown of node %d (30 inbound connections) did not return and %d connection handlers are blocked in a channel send after the raft loop has ended", victim, blocked)
			}
			return fail("shutdown of node %d: %v", victim, err)
		}
		<-nd.done
		c.net.mu.Lock()
		delete(c.net.listeners, nd.addr)
		c.net.mu.Unlock()
		_ = nd.lis.Close()
		nd.r = nil
		res.OK = true
		return res
	case "backlog":
		// a follower is down while well over maxAppendEntries (64) entries are committed,
		// then comes back: the pipeline ships the backlog in several chunks
		var victim uint64
		ldr, _ := c.leader(5 * time.Second)
		for _, id := range up {
			if id != ldr {
				victim = id
				break
			}
		}
		if err := c.stop(victim); err != nil {
			return fail("%v", err)
		}
		if err := put(150); err != nil {
			return fail("update: %v", err)
		}
		if err := c.start(victim); err != nil {
			return fail("restart: %v", err)
		}
	case "snap2":
		// two nodes are down while entries are committed, snapshotted and compacted;
		// they then come up together: two snapshot installations at once
		if err := put(8); err != nil {
			return fail("update: %v", err)
		}
		ldr, _ := c.leader(5 * time.Second)
		t := TakeSnapshot(0)
		c.nodes[ldr].r.Tasks() <- t
		select {
		case <-t.Done():
		case <-time.After(10 * time.Second):
			return fail("TakeSnapshot not answered")
		}
		if t.Err() != nil {
			return fail("TakeSnapshot: %v", t.Err())
		}
		// give the unreachable streams time to acknowledge the new log view so that compaction happens
		time.Sleep(600 * time.Millisecond)
		if err := put(2); err != nil {
			return fail("update: %v", err)
		}
		for _, id := range []uint64{4, 5} {
			if err := c.start(id); err != nil {
				return fail("start %d: %v", id, err)
			}
		}
	}
	if err := c.converge(updates, 20*time.Second); err != nil {
		return fail("%v", err)
	}
	// all nodes agree on the applied sequence
	var ref []string
	for id, nd := range c.nodes {
		if nd.r == nil {
			continue
		}
		st := nd.fsm.snapshot()
		if ref == nil {
			ref = st
		} else if strings.Join(ref, ",") != strings.Join(st, ",") {
			return fail("node %d applied %v, another node %v", id, st, ref)
		}
		if inf, err := c.info(id); err == nil && inf.SnapshotIndex > 0 && name == "snap2" && (id == 4 || id == 5) {
			res.Snapshots++
		}
	}
	res.Final = ref
	for id := range c.nodes {
		if err := c.stop(id); err != nil {
			return fail("%v", err)
		}
	}
	// conformance of every recorded stream with the driver skeleton
	tr.mu.Lock()
	var keys []*replication
	for r := range tr.streams {
		keys = append(keys, r)
	}
	sort.Slice(keys, func(i, j int) bool { return keys[i].status.id < keys[j].status.id })
	for _, r := range keys {
		evs := tr.streams[r]
		res.Streams++
		res.Events += len(evs)
		if why := liveAcceptTrace(r.ldrStartIndex, evs); why != "" {
			head := evs
			if len(head) > 14 {
				head = head[:14]
			}
			res.Rejected = append(res.Rejected, fmt.Sprintf("stream to node %d (start %d): %s; first events %v", r.status.id, r.ldrStartIndex, why, head))
		}
	}
	tr.mu.Unlock()
	res.OK = len(res.Rejected) == 0
	if !res.OK {
		res.Problem = "stream trace not accepted by the driver skeleton"
	}
	return res
}

var liveScripts = []string{"basic", "restart", "backlog", "snap2", "manyconns"}

// liveMain: `vraft live [--rounds n]` runs all scripts and prints one JSON line per run.
func liveMain(args []string) int {
	simVirtualTime = false
	rounds := vkArgInt(args, "rounds", 1)
	only := vkArg(args, "script", "")
	exit := 0
	for r := 0; r < rounds; r++ {
		for _, s := range liveScripts {
			if only != "" && only != s {
				continue
			}
			res := liveScript(s)
			b, _ := json.Marshal(res)
			fmt.Println("LIVE " + string(b))
			if !res.OK {
				exit = 1
			}
		}
	}
	return exit
}

func init() { vkCommands["live"] = liveMain }

// liveSupplement runs the free-running scripts in subprocesses: once with the
// normal build (driver conformance) and, if the -race binary was built by
// bin/setup.sh, under the race detector.  It adds coverage keys to run and
// reports races as violations of C15.
func liveSupplement(run *vkRun, tier string) {
	exe, err := os.Executable()
	if err != nil {
		run.Cov["live_pass"] = "not run: " + err.Error()
		return
	}
	rounds := "2"
	if tier == "thorough" {
		rounds = "10"
	}
	type pass struct {
		Ran      bool     `json:"ran"`
		Note     string   `json:"note,omitempty"`
		Runs     int      `json:"script_runs"`
		Failed   []string `json:"failed,omitempty"`
		Facts    []string `json:"facts,omitempty"`
		Streams  int      `json:"streams"`
		Events   int      `json:"stream_events"`
		Rejected []string `json:"rejected_traces,omitempty"`
		Races    []string `json:"races,omitempty"`
		Crashed  string   `json:"process_terminated,omitempty"`
	}
	do := func(bin string, race bool) pass {
		var p pass
		if _, err := os.Stat(bin); err != nil {
			p.Note = "binary not built: " + bin
			return p
		}
		cmd := exec.Command(bin, "live", "--rounds", rounds)
		cmd.Env = append(os.Environ(), "GORACE=halt_on_error=0")
		var out, errb bytes.Buffer
		cmd.Stdout, cmd.Stderr = &out, &errb
		done := make(chan error, 1)
		if err := cmd.Start(); err != nil {
			p.Note = err.Error()
			return p
		}
		go func() { done <- cmd.Wait() }()
		select {
		case <-done:
		case <-time.After(15 * time.Minute):
			_ = cmd.Process.Kill()
			<-done
			p.Note = "timed out"
		}
		p.Ran = true
		if es := errb.String(); !race || strings.Contains(es, "\npanic:") || strings.Contains(es, "fatal error:") {
			for _, mark := range []string{"panic:", "fatal error:"} {
				if i := strings.Index(es, mark); i >= 0 && !strings.Contains(es[:i], "WARNING: DATA RACE") || (i >= 0 && !race) {
					msg := es[i:]
					if len(msg) > 400 {
						msg = msg[:400]
					}
					p.Crashed = strings.Replace(msg, "\n", " | ", -1)
					break
				}
			}
		}
		for _, line := range strings.Split(out.String(), "\n") {
			if !strings.HasPrefix(line, "LIVE ") {
				continue
			}
			var r liveResult
			if json.Unmarshal([]byte(line[5:]), &r) != nil {
				continue
			}
			p.Runs++
			if r.Fact != "" {
				p.Facts = append(p.Facts, r.Fact)
			}
			p.Streams += r.Streams
			p.Events += r.Events
			p.Rejected = append(p.Rejected, r.Rejected...)
			if !r.OK {
				p.Failed = append(p.Failed, r.Script+": "+r.Problem)
			}
		}
		if race {
			// one entry per distinct pair of top frames
			seen := map[string]bool{}
			blocks := strings.Split(errb.String(), "WARNING: DATA RACE")
			for _, b := range blocks[1:] {
				var frames []string
				for _, l := range strings.Split(b, "\n") {
					l = strings.TrimSpace(l)
					if strings.HasPrefix(l, "github.com/santhosh-tekuri/raft") && strings.HasSuffix(l, ")") && !strings.Contains(l, "liveCluster") {
						f := strings.TrimPrefix(l, "github.com/santhosh-tekuri/raft")
						f = strings.TrimSuffix(strings.TrimPrefix(f, "."), "()")
						frames = append(frames, f)
					}
					if len(frames) == 1 && strings.HasPrefix(l, "Previous") {
						// second stack follows
					}
				}
				if len(frames) == 0 {
					continue
				}
				key := frames[0]
				if !seen[key] {
					seen[key] = true
					p.Races = append(p.Races, key)
				}
			}
			sort.Strings(p.Races)
		}
		return p
	}
	normal := do(exe, false)
	run.Cov["driver_conformance"] = normal
	if normal.Crashed != "" {
		run.Violation("live:process-terminated:live-scripts", "a free-running script terminated its process: "+normal.Crashed, map[string]interface{}{"cmd": "vraft live"})
	}
	for _, f := range normal.Facts {
		kv := strings.SplitN(f, ": ", 2)
		run.Violation("live:"+kv[0], "free-running script: "+f, map[string]interface{}{"cmd": "vraft live --script manyconns"})
	}
	var undecided []string
	for _, f := range normal.Failed {
		// a script that runs on real timers can fail because the machine is slow (no leader within 10 s, no
		// convergence within 20 s): that decides nothing and is only noted.  State machines that disagree are a fact.
		if strings.Contains(f, " applied ") && strings.Contains(f, "another node") {
			run.Violation("live:script-failed:"+strings.SplitN(f, ":", 2)[0], "free-running script failed: "+f, map[string]interface{}{"cmd": "vraft live"})
		} else if !strings.Contains(f, "stream trace not accepted") {
			undecided = append(undecided, f)
		}
	}
	if len(undecided) > 0 {
		run.Cov["live_scripts_undecided"] = undecided
	}
	for _, r := range normal.Rejected {
		if strings.Contains(r, "ACKED-MORE-THAN-SENT") {
			// not a modelling question: the real replication goroutine credited a follower with entries it never sent
			run.Violation("live:match-index-beyond-sent", "free-running replication stream: "+r+" (the leader would count, commit and acknowledge entries only it stores)", map[string]interface{}{"cmd": "vraft live --script backlog"})
			continue
		}
		run.Cov["driver_conformance_note"] = "a recorded stream of the real replication goroutine is not accepted by the driver skeleton: the skeleton (harness), not the library, needs attention: " + r
	}
	// pipeline stop race (the one piece of replication control flow the driver
	// skeleton replaces that has a real two-goroutine race): both outcomes of
	// the writer goroutine's select are forced by holding its write until the
	// stream is stopped; repeated until both have been seen (64 trials)
	written, leftover, detail, crashed := liveDesyncChild(exe, 64)
	if crashed != "" && !strings.Contains(crashed, "panic:") && !strings.Contains(crashed, "fatal error:") {
		// the child did not finish for a reason that is not the library's (killed, resources): nothing decided
		run.Cov["pipeline_stop_desync_undecided"] = crashed
		crashed = ""
	}
	if crashed != "" {
		// the free-running node terminated its process (panic / fatal error): that is what C15 forbids
		run.Violation("live:process-terminated:desync-script", "the free-running node of the pipeline-stop script terminated its process: "+crashed, map[string]interface{}{"cmd": "vraft desync --trials 64"})
	}
	run.Cov["pipeline_stop_desync"] = map[string]interface{}{"trials": 64, "writes_released_after_stop": written, "pooled_connections_with_unread_response": leftover, "detail": detail}
	if leftover > 0 {
		run.Violation("alive:pooled-connection-with-unread-response", fmt.Sprintf("after replication was stopped during a pipelined write, %d of %d trials left a connection with an unread append response in the shared connection pool (the next vote/timeout-now RPC on it is misframed)", leftover, written), map[string]interface{}{"cmd": "vraft desync --trials 64", "detail": detail})
	}
	racePass := do(filepath.Join(filepath.Dir(exe), "vraft-race"), true)
	run.Cov["race_pass"] = racePass
	run.Cov["race_pass_note"] = "supplementary, not exhaustive: the scripts basic/restart/snap2 run free under the race detector; a report is a violation, silence proves nothing"
	for _, r := range racePass.Races {
		run.Violation("race:"+r, "data race reported by the free-running -race pass, top frame "+r+" (run `.build/bin/vraft-race live` for the full report)", map[string]interface{}{"cmd": "vraft-race live"})
	}
}

// liveConformance is the part of the free-running pass that every property resting on match indexes needs
// (C02, C06, C07): the replication control flow E-SIM replaces by the driver skeleton is the real goroutine's here,
// and each recorded stream must be one the skeleton can produce.  Only the fact that needs no interpretation is
// reported as a violation: a follower credited with entries that were never sent to it.
func liveConformance(run *vkRun, tier string) {
	exe, err := os.Executable()
	if err != nil {
		run.Cov["driver_conformance"] = "not run: " + err.Error()
		return
	}
	rounds := 3
	if tier == "thorough" {
		rounds = 10
	}
	cmd := exec.Command(exe, "live", "--script", "backlog", "--rounds", fmt.Sprint(rounds))
	var out, errb bytes.Buffer
	cmd.Stdout, cmd.Stderr = &out, &errb
	done := make(chan error, 1)
	if err := cmd.Start(); err != nil {
		run.Cov["driver_conformance"] = "not run: " + err.Error()
		return
	}
	go func() { done <- cmd.Wait() }()
	select {
	case <-done:
	case <-time.After(5 * time.Minute):
		_ = cmd.Process.Kill()
		<-done
	}
	runs, streams, events := 0, 0, 0
	var notes []string
	for _, line := range strings.Split(out.String(), "\n") {
		if !strings.HasPrefix(line, "LIVE ") {
			continue
		}
		var r liveResult
		if json.Unmarshal([]byte(line[5:]), &r) != nil {
			continue
		}
		runs++
		streams += r.Streams
		events += r.Events
		for _, rej := range r.Rejected {
			if strings.Contains(rej, "ACKED-MORE-THAN-SENT") {
				run.Violation("live:match-index-beyond-sent", "free-running replication stream: "+rej+" (the leader counts, commits and acknowledges entries only it stores)", map[string]interface{}{"cmd": "vraft live --script backlog"})
			} else {
				notes = append(notes, rej)
			}
		}
		if !r.OK && len(r.Rejected) == 0 {
			notes = append(notes, r.Script+": "+r.Problem)
		}
	}
	run.Cov["driver_conformance"] = map[string]interface{}{"script": "backlog (a follower is down while 150 entries are committed, then catches up through the pipeline in chunks of 64)",
		"script_runs": runs, "streams": streams, "stream_events": events, "not_decided_here": notes,
		"note": "supplementary and free-running: binds the driver skeleton to the real replication goroutine; the deciding step of this check is the exhaustive exploration above"}
}

// liveDesyncChild runs the pipeline-stop script in a child process; a child that dies is reported, never re-run in-process.
func liveDesyncChild(exe string, trials int) (written, leftover int, detail []string, crashed string) {
	cmd := exec.Command(exe, "desync", "--json", "--trials", fmt.Sprint(trials))
	var stderr bytes.Buffer
	cmd.Stderr = &stderr
	out, err := cmd.Output()
	var res struct {
		Written  int      `json:"written"`
		Leftover int      `json:"leftover"`
		Detail   []string `json:"detail"`
	}
	if json.Unmarshal(out, &res) == nil && (err == nil || res.Written > 0) {
		return res.Written, res.Leftover, res.Detail, ""
	}
	msg := stderr.String()
	if i := strings.Index(msg, "panic:"); i >= 0 {
		msg = msg[i:]
	} else if i := strings.Index(msg, "fatal error:"); i >= 0 {
		msg = msg[i:]
	}
	if len(msg) > 400 {
		msg = msg[:400]
	}
	return 0, 0, nil, fmt.Sprintf("%v: %s", err, strings.Replace(msg, "\n", " | ", -1))
}
