//go:build verif
// +build verif

package raft

// C18 (E-ENUM codec) — type descriptors.
//
// Every enumerated message/record type is described as a flat list of fields,
// each with a small boundary domain.  A case is a "choice vector" (one domain
// index per field); build() turns it into the real Go value, encode()/decode()
// call the real (unexported) codec functions, canon() renders a value in a
// canonical text form (maps sorted, nil and empty identified, errors by kind
// and text) which is used both for comparison and for counting distinct cases.
//
// Index 0 of every domain is the simplest value (0, "", false, nil, first
// valid enum value); it is baseline A.  Field.b is baseline B.  Shrinking a
// failing vector moves every field towards index 0.

import (
	"bytes"
	"errors"
	"fmt"
	"io"
	"sort"
	"strings"
	"time"
)

// ---------------------------------------------------------------- domains

var c18U64 = []uint64{0, 1, 1<<63 - 1, 1 << 63, ^uint64(0)}
var c18U64Desc = []string{"0", "1", "2^63-1", "2^63", "2^64-1"}

// int64 sizes travel as uint64(size): the same five bit patterns.
var c18I64 = []int64{0, 1, 1<<63 - 1, -1 << 63, -1}
var c18I64Desc = []string{"0", "1", "2^63-1", "-2^63(wire 2^63)", "-1(wire 2^64-1)"}

func c18LongBytes() []byte {
	b := make([]byte, 300)
	for i := range b {
		b[i] = byte(i*7 + 3) // every residue incl. 0x00 and 0xff appears
	}
	return b
}

var c18Long = string(c18LongBytes())
var c18Str = []string{"", "a", c18Long}
var c18StrDesc = []string{`""`, `"a"`, "300B"}

var c18Bytes = [][]byte{nil, {}, {0xa5}, c18LongBytes()}
var c18BytesDesc = []string{"nil", "empty", "1B", "300B"}

var c18Times = []*time.Time{nil, c18T(0, 1), c18T(0, 1<<63-1), c18T(0, -1), c18T(1700000000, 123456789)}
var c18TimesDesc = []string{"nil", "epoch+1ns", "epoch+(2^63-1)ns", "epoch-1ns", "2023-11-14T22:13:20.123456789Z"}

func c18T(sec, nsec int64) *time.Time {
	t := time.Unix(sec, nsec).UTC()
	return &t
}

// ---------------------------------------------------------------- descriptor

type c18Field struct {
	name string
	n    int // domain size; baseline A is index 0
	b    int // baseline B
	desc func(i int) string
	set  func(w interface{}, i int)
}

type c18Type struct {
	name      string
	fields    []c18Field
	unordered bool // the encoding iterates a map with >= 2 entries (byte order of the encoding is not fixed)
	cap       int  // max generated vectors (0: default)
	newWork   func() interface{}
	finish    func(w interface{}) interface{}
	encode    func(v interface{}, w io.Writer) error
	decode    func(exp interface{}, r io.Reader) (interface{}, error)
	canon     func(v interface{}) string
	// equal returns "" when got is an acceptable decoding of exp (default: canon equality)
	equal func(exp, got interface{}) string
	// prefixOK tells whether (v, err) is an acceptable outcome of decoding a truncated encoding (default: err != nil)
	prefixOK func(v interface{}, err error) bool
	// observe is called for every successfully round-tripped case (optional; for measured notes)
	observe func(exp, got interface{}, st *c18Stats)
}

func (t *c18Type) build(ch []int) interface{} {
	w := t.newWork()
	for i := range t.fields {
		t.fields[i].set(w, ch[i])
	}
	if t.finish != nil {
		return t.finish(w)
	}
	return w
}

func (t *c18Type) describe(ch []int) map[string]string {
	m := map[string]string{}
	for i, f := range t.fields {
		m[f.name] = f.desc(ch[i])
	}
	return m
}

// witness renders the non-simplest fields of a (shrunk) vector: the stable part of a violation key.
func (t *c18Type) witness(ch []int) string {
	var parts []string
	for i, f := range t.fields {
		if ch[i] != 0 {
			parts = append(parts, f.name+"="+f.desc(ch[i]))
		}
	}
	if len(parts) == 0 {
		return "all-fields-simplest"
	}
	return strings.Join(parts, ",")
}

// ---------------------------------------------------------------- builder DSL

type c18Builder struct{ fields []c18Field }

func (b *c18Builder) add(f c18Field) { b.fields = append(b.fields, f) }

func (b *c18Builder) u64(name string, p func(w interface{}) *uint64) {
	b.add(c18Field{name: name, n: len(c18U64), b: 4,
		desc: func(i int) string { return c18U64Desc[i] },
		set:  func(w interface{}, i int) { *p(w) = c18U64[i] }})
}

func (b *c18Builder) i64(name string, p func(w interface{}) *int64) {
	b.add(c18Field{name: name, n: len(c18I64), b: 4,
		desc: func(i int) string { return c18I64Desc[i] },
		set:  func(w interface{}, i int) { *p(w) = c18I64[i] }})
}

func (b *c18Builder) str(name string, p func(w interface{}) *string) {
	b.add(c18Field{name: name, n: len(c18Str), b: 1,
		desc: func(i int) string { return c18StrDesc[i] },
		set:  func(w interface{}, i int) { *p(w) = c18Str[i] }})
}

func (b *c18Builder) byts(name string, p func(w interface{}) *[]byte) {
	b.add(c18Field{name: name, n: len(c18Bytes), b: 2,
		desc: func(i int) string { return c18BytesDesc[i] },
		set: func(w interface{}, i int) {
			if c18Bytes[i] == nil {
				*p(w) = nil
			} else {
				*p(w) = append([]byte{}, c18Bytes[i]...)
			}
		}})
}

func (b *c18Builder) boolean(name string, p func(w interface{}) *bool) {
	b.add(c18Field{name: name, n: 2, b: 1,
		desc: func(i int) string { return fmt.Sprint(i == 1) },
		set:  func(w interface{}, i int) { *p(w) = i == 1 }})
}

// enum: vals lists all valid values first, then the invalid one(s).
func (b *c18Builder) enum(name string, vals []uint8, descs []string, bIdx int, set func(w interface{}, v uint8)) {
	b.add(c18Field{name: name, n: len(vals), b: bIdx,
		desc: func(i int) string { return descs[i] },
		set:  func(w interface{}, i int) { set(w, vals[i]) }})
}

// c18Perms returns all k-tuples of distinct indices below n in lexicographic order.
func c18Perms(n, k int) [][]int {
	var out [][]int
	var rec func(cur []int)
	rec = func(cur []int) {
		if len(cur) == k {
			out = append(out, append([]int(nil), cur...))
			return
		}
		for i := 0; i < n; i++ {
			dup := false
			for _, c := range cur {
				if c == i {
					dup = true
				}
			}
			if !dup {
				rec(append(cur, i))
			}
		}
	}
	rec(nil)
	return out
}

func c18PermDesc(p []int) string {
	var s []string
	for _, i := range p {
		s = append(s, c18U64Desc[i])
	}
	return "(" + strings.Join(s, ",") + ")"
}

// ---- Node

var c18Actions = []uint8{uint8(None), uint8(Promote), uint8(Demote), uint8(Remove), uint8(ForceRemove), 255}
var c18ActionsDesc = []string{"none", "promote", "demote", "remove", "forceRemove", "invalid(255)"}

func (b *c18Builder) node(prefix string, withID bool, p func(w interface{}) *Node) {
	if withID {
		b.u64(prefix+"ID", func(w interface{}) *uint64 { return &p(w).ID })
	}
	b.str(prefix+"Addr", func(w interface{}) *string { return &p(w).Addr })
	b.boolean(prefix+"Voter", func(w interface{}) *bool { return &p(w).Voter })
	b.str(prefix+"Data", func(w interface{}) *string { return &p(w).Data })
	b.enum(prefix+"Action", c18Actions, c18ActionsDesc, 4, func(w interface{}, v uint8) { p(w).Action = Action(v) })
}

// ---- Config with exactly k nodes (IDs distinct: Config.Nodes is a map keyed by ID)

type c18Cfg struct {
	index, term uint64
	nilmap      bool
	nodes       []Node
}

func (c *c18Cfg) config() Config {
	cfg := Config{Index: c.index, Term: c.term}
	if len(c.nodes) == 0 && c.nilmap {
		return cfg
	}
	cfg.Nodes = make(map[uint64]Node)
	for _, n := range c.nodes {
		cfg.Nodes[n.ID] = n
	}
	return cfg
}

func (b *c18Builder) cfg(prefix string, k int, p func(w interface{}) *c18Cfg) {
	b.u64(prefix+"Index", func(w interface{}) *uint64 { return &p(w).index })
	b.u64(prefix+"Term", func(w interface{}) *uint64 { return &p(w).term })
	if k == 0 {
		b.boolean(prefix+"NodesNilMap", func(w interface{}) *bool { return &p(w).nilmap })
		return
	}
	perms := c18Perms(len(c18U64), k)
	b.add(c18Field{name: prefix + "ids", n: len(perms), b: len(perms) - 1,
		desc: func(i int) string { return c18PermDesc(perms[i]) },
		set: func(w interface{}, i int) {
			c := p(w)
			if len(c.nodes) != k {
				c.nodes = make([]Node, k)
			}
			for j := 0; j < k; j++ {
				c.nodes[j].ID = c18U64[perms[i][j]]
			}
		}})
	for j := 0; j < k; j++ {
		j := j
		b.node(fmt.Sprintf("%sn%d.", prefix, j), false, func(w interface{}) *Node { return &p(w).nodes[j] })
	}
}

// ---- Replication

func (b *c18Builder) repl(prefix string, withID bool, p func(w interface{}) *Replication) {
	if withID {
		b.u64(prefix+"ID", func(w interface{}) *uint64 { return &p(w).ID })
	}
	b.u64(prefix+"MatchIndex", func(w interface{}) *uint64 { return &p(w).MatchIndex })
	b.add(c18Field{name: prefix + "Unreachable", n: len(c18Times), b: 4,
		desc: func(i int) string { return c18TimesDesc[i] },
		set: func(w interface{}, i int) {
			if c18Times[i] == nil {
				p(w).Unreachable = nil
			} else {
				t := *c18Times[i]
				p(w).Unreachable = &t
			}
		}})
	// Err and ErrMessage are produced together by Raft.info(): ErrMessage = Err.Error()
	b.add(c18Field{name: prefix + "ErrMessage", n: len(c18Str), b: 1,
		desc: func(i int) string { return c18StrDesc[i] },
		set: func(w interface{}, i int) {
			r := p(w)
			r.ErrMessage = c18Str[i]
			r.Err = nil
			if c18Str[i] != "" {
				r.Err = errors.New(c18Str[i])
			}
		}})
	b.u64(prefix+"Round", func(w interface{}) *uint64 { return &p(w).Round })
}

// ---- Info with F followers and configs of kc / kl nodes

type c18InfoW struct {
	info     Info
	com, lat c18Cfg
	flrs     []Replication
	nilflrs  bool
}

func (iw *c18InfoW) value() Info {
	info := iw.info
	info.Configs.Committed = iw.com.config()
	info.Configs.Latest = iw.lat.config()
	info.Followers = nil
	if len(iw.flrs) > 0 || !iw.nilflrs {
		info.Followers = map[uint64]Replication{}
		for _, f := range iw.flrs {
			info.Followers[f.ID] = f
		}
	}
	return info
}

var c18States = []uint8{uint8(Follower), uint8(Candidate), uint8(Leader), 0, 255}
var c18StatesDesc = []string{"F", "C", "L", "invalid(0)", "invalid(255)"}

func (b *c18Builder) info(prefix string, nf, kc, kl int, p func(w interface{}) *c18InfoW) {
	u := func(name string, q func(i *Info) *uint64) {
		b.u64(prefix+name, func(w interface{}) *uint64 { return q(&p(w).info) })
	}
	u("CID", func(i *Info) *uint64 { return &i.CID })
	u("NID", func(i *Info) *uint64 { return &i.NID })
	b.str(prefix+"Addr", func(w interface{}) *string { return &p(w).info.Addr })
	u("Term", func(i *Info) *uint64 { return &i.Term })
	b.enum(prefix+"State", c18States, c18StatesDesc, 2, func(w interface{}, v uint8) { p(w).info.State = State(v) })
	u("Leader", func(i *Info) *uint64 { return &i.Leader })
	u("SnapshotIndex", func(i *Info) *uint64 { return &i.SnapshotIndex })
	u("FirstLogIndex", func(i *Info) *uint64 { return &i.FirstLogIndex })
	u("LastLogIndex", func(i *Info) *uint64 { return &i.LastLogIndex })
	u("LastLogTerm", func(i *Info) *uint64 { return &i.LastLogTerm })
	u("Committed", func(i *Info) *uint64 { return &i.Committed })
	u("LastApplied", func(i *Info) *uint64 { return &i.LastApplied })
	b.cfg(prefix+"Committed.", kc, func(w interface{}) *c18Cfg { return &p(w).com })
	b.cfg(prefix+"Latest.", kl, func(w interface{}) *c18Cfg { return &p(w).lat })
	if nf == 0 {
		b.boolean(prefix+"FollowersNilMap", func(w interface{}) *bool { return &p(w).nilflrs })
		return
	}
	perms := c18Perms(len(c18U64), nf)
	b.add(c18Field{name: prefix + "flrIDs", n: len(perms), b: len(perms) - 1,
		desc: func(i int) string { return c18PermDesc(perms[i]) },
		set: func(w interface{}, i int) {
			iw := p(w)
			if len(iw.flrs) != nf {
				iw.flrs = make([]Replication, nf)
			}
			for j := 0; j < nf; j++ {
				iw.flrs[j].ID = c18U64[perms[i][j]]
			}
		}})
	for j := 0; j < nf; j++ {
		j := j
		b.repl(fmt.Sprintf("%sf%d.", prefix, j), false, func(w interface{}) *Replication { return &p(w).flrs[j] })
	}
}

// ---------------------------------------------------------------- canonical forms

func c18S(s string) string {
	if len(s) <= 24 {
		return fmt.Sprintf("%q", s)
	}
	// long strings: length + FNV-1a 64 of the content
	h := uint64(14695981039346656037)
	for i := 0; i < len(s); i++ {
		h ^= uint64(s[i])
		h *= 1099511628211
	}
	return fmt.Sprintf("s%d:%016x", len(s), h)
}

func c18CanonErr(err error) string {
	if err == nil {
		return "nil"
	}
	switch e := err.(type) {
	case OpError:
		return "OpError{" + c18S(e.Op) + "," + c18CanonErr(e.Err) + "}"
	case NotLeaderError:
		return fmt.Sprintf("NotLeaderError{%s,%t}", c18CanonNode(e.Leader), e.Lost)
	}
	return fmt.Sprintf("%T:%s", err, c18S(err.Error()))
}

func c18CanonEntry(e *entry) string {
	return fmt.Sprintf("entry{%d,%d,%d,%s}", e.index, e.term, e.typ, c18S(string(e.data)))
}

func c18CanonNode(n Node) string {
	return fmt.Sprintf("N{%d,%s,%t,%s,%d}", n.ID, c18S(n.Addr), n.Voter, c18S(n.Data), n.Action)
}

func c18CanonConfig(c Config) string {
	ids := make([]uint64, 0, len(c.Nodes))
	for id := range c.Nodes {
		ids = append(ids, id)
	}
	sort.Slice(ids, func(i, j int) bool { return ids[i] < ids[j] })
	var sb strings.Builder
	fmt.Fprintf(&sb, "C{%d,%d,[", c.Index, c.Term)
	for _, id := range ids {
		fmt.Fprintf(&sb, "%d=%s;", id, c18CanonNode(c.Nodes[id]))
	}
	sb.WriteString("]}")
	return sb.String()
}

func c18CanonRepl(r Replication) string {
	un := "nil"
	if r.Unreachable != nil {
		un = fmt.Sprintf("%dns", r.Unreachable.UnixNano())
	}
	e := "nil"
	if r.Err != nil { // only the text travels (ErrMessage); kind is not part of the wire format
		e = c18S(r.Err.Error())
	}
	return fmt.Sprintf("R{%d,%d,%s,%s,%s,%d}", r.ID, r.MatchIndex, un, e, c18S(r.ErrMessage), r.Round)
}

func c18CanonInfo(i Info) string {
	ids := make([]uint64, 0, len(i.Followers))
	for id := range i.Followers {
		ids = append(ids, id)
	}
	sort.Slice(ids, func(a, b int) bool { return ids[a] < ids[b] })
	var sb strings.Builder
	fmt.Fprintf(&sb, "I{%d,%d,%s,%d,%d,%d,%d,%d,%d,%d,%d,%d,%s,%s,[", i.CID, i.NID, c18S(i.Addr), i.Term, uint8(i.State),
		i.Leader, i.SnapshotIndex, i.FirstLogIndex, i.LastLogIndex, i.LastLogTerm, i.Committed, i.LastApplied,
		c18CanonConfig(i.Configs.Committed), c18CanonConfig(i.Configs.Latest))
	for _, id := range ids {
		fmt.Fprintf(&sb, "%d=%s;", id, c18CanonRepl(i.Followers[id]))
	}
	sb.WriteString("]}")
	return sb.String()
}

func c18CanonResp(r resp) string {
	return fmt.Sprintf("resp{%d,%d,%s}", r.term, r.result, c18CanonErr(r.err))
}

// ---------------------------------------------------------------- the types

func c18ConfigName(base string, k int) string { return fmt.Sprintf("%s/%dn", base, k) }

func c18EncodeConfig(c Config, w io.Writer) error { return c.encode().encode(w) }

func c18DecodeConfig(r io.Reader) (Config, error) {
	e := &entry{}
	if err := e.decode(r); err != nil {
		return Config{}, err
	}
	var c Config
	if err := c.decode(e); err != nil {
		return Config{}, err
	}
	return c, nil
}

var c18EntryTypes = []uint8{uint8(entryBarrier), uint8(entryUpdate), uint8(entryRead), uint8(entryDirtyRead), uint8(entryNop), uint8(entryConfig), 0, 255}
var c18EntryTypesDesc = []string{"barrier", "update", "read", "dirtyRead", "nop", "config", "invalid(0)", "invalid(255)"}

func (b *c18Builder) reqHdr(p func(w interface{}) *req) {
	b.u64("term", func(w interface{}) *uint64 { return &p(w).term })
	b.u64("src", func(w interface{}) *uint64 { return &p(w).src })
}

// response outcomes: result code + error, as produced by rpcType.createResp
type c18Outcome struct {
	desc   string
	result rpcResult
	err    func() error
}

func c18Outcomes() []c18Outcome {
	var out []c18Outcome
	names := []string{"success", "identityMismatch", "staleTerm", "alreadyVoted", "leaderKnown", "logNotUptodate",
		"prevEntryNotFound", "prevTermMismatch", "nonVoter", "readErr"}
	for i, n := range names {
		out = append(out, c18Outcome{n, rpcResult(i + 1), func() error { return nil }})
	}
	for _, v := range []uint8{0, 12, 255} {
		out = append(out, c18Outcome{fmt.Sprintf("invalid(%d)", v), rpcResult(v), func() error { return nil }})
	}
	for i, s := range c18Str {
		s := s
		out = append(out, c18Outcome{"unexpectedErr/plain(" + c18StrDesc[i] + ")", unexpectedErr, func() error { return errors.New(s) }})
	}
	for oi := 1; oi < len(c18Str); oi++ { // Op "" is the wire marker for "not an OpError"; opError() never produces it
		for i, s := range c18Str {
			op, s := c18Str[oi], s
			out = append(out, c18Outcome{"unexpectedErr/OpError(op=" + c18StrDesc[oi] + ",err=" + c18StrDesc[i] + ")", unexpectedErr,
				func() error { return OpError{op, errors.New(s)} }})
		}
	}
	return out
}

type c18RespW struct {
	resp         resp
	lastLogIndex uint64
}

func c18RespType(name string, withLast bool, mk func(w *c18RespW) response, get func(v interface{}) (resp, uint64)) *c18Type {
	outs := c18Outcomes()
	b := &c18Builder{}
	b.u64("term", func(w interface{}) *uint64 { return &w.(*c18RespW).resp.term })
	b.add(c18Field{name: "outcome", n: len(outs), b: len(outs) - 1,
		desc: func(i int) string { return outs[i].desc },
		set: func(w interface{}, i int) {
			rw := w.(*c18RespW)
			rw.resp.result, rw.resp.err = outs[i].result, outs[i].err()
		}})
	if withLast {
		b.u64("lastLogIndex", func(w interface{}) *uint64 { return &w.(*c18RespW).lastLogIndex })
	}
	return &c18Type{
		name: name, fields: b.fields,
		newWork: func() interface{} { return &c18RespW{} },
		finish:  func(w interface{}) interface{} { return mk(w.(*c18RespW)) },
		encode:  func(v interface{}, w io.Writer) error { return v.(response).encode(w) },
		decode: func(_ interface{}, r io.Reader) (interface{}, error) {
			m := mk(&c18RespW{resp: resp{term: 77, result: unexpectedErr, err: errors.New("stale")}, lastLogIndex: 99})
			err := m.decode(r)
			return m, err
		},
		canon: func(v interface{}) string {
			r, l := get(v)
			return fmt.Sprintf("%s{%s,%d}", name, c18CanonResp(r), l)
		},
	}
}

func c18Types(thorough bool) []*c18Type {
	var ts []*c18Type
	maxNodes, maxFlrs := 3, 2
	if thorough {
		maxNodes, maxFlrs = 4, 3
	}

	// ---- entry
	{
		b := &c18Builder{}
		b.u64("index", func(w interface{}) *uint64 { return &w.(*entry).index })
		b.u64("term", func(w interface{}) *uint64 { return &w.(*entry).term })
		b.enum("typ", c18EntryTypes, c18EntryTypesDesc, 5, func(w interface{}, v uint8) { w.(*entry).typ = entryType(v) })
		b.byts("data", func(w interface{}) *[]byte { return &w.(*entry).data })
		ts = append(ts, &c18Type{name: "entry", fields: b.fields,
			newWork: func() interface{} { return &entry{} },
			encode:  func(v interface{}, w io.Writer) error { return v.(*entry).encode(w) },
			decode: func(_ interface{}, r io.Reader) (interface{}, error) {
				e := &entry{index: 7, term: 7, typ: 7, data: []byte("stale")}
				err := e.decode(r)
				return e, err
			},
			canon: func(v interface{}) string { return c18CanonEntry(v.(*entry)) },
		})
	}

	// ---- requests
	{
		b := &c18Builder{}
		b.reqHdr(func(w interface{}) *req { return &w.(*identityReq).req })
		b.u64("cid", func(w interface{}) *uint64 { return &w.(*identityReq).cid })
		b.u64("nid", func(w interface{}) *uint64 { return &w.(*identityReq).nid })
		ts = append(ts, &c18Type{name: "identityReq", fields: b.fields,
			newWork: func() interface{} { return &identityReq{} },
			encode:  func(v interface{}, w io.Writer) error { return v.(*identityReq).encode(w) },
			decode: func(_ interface{}, r io.Reader) (interface{}, error) {
				m := &identityReq{req{9, 9}, 9, 9}
				err := m.decode(r)
				return m, err
			},
			canon: func(v interface{}) string {
				m := v.(*identityReq)
				return fmt.Sprintf("identityReq{%d,%d,%d,%d}", m.term, m.src, m.cid, m.nid)
			},
		})
	}
	{
		b := &c18Builder{}
		b.reqHdr(func(w interface{}) *req { return &w.(*voteReq).req })
		b.u64("lastLogIndex", func(w interface{}) *uint64 { return &w.(*voteReq).lastLogIndex })
		b.u64("lastLogTerm", func(w interface{}) *uint64 { return &w.(*voteReq).lastLogTerm })
		b.boolean("transfer", func(w interface{}) *bool { return &w.(*voteReq).transfer })
		ts = append(ts, &c18Type{name: "voteReq", fields: b.fields,
			newWork: func() interface{} { return &voteReq{} },
			encode:  func(v interface{}, w io.Writer) error { return v.(*voteReq).encode(w) },
			decode: func(_ interface{}, r io.Reader) (interface{}, error) {
				m := &voteReq{req{9, 9}, 9, 9, true}
				err := m.decode(r)
				return m, err
			},
			canon: func(v interface{}) string {
				m := v.(*voteReq)
				return fmt.Sprintf("voteReq{%d,%d,%d,%d,%t}", m.term, m.src, m.lastLogIndex, m.lastLogTerm, m.transfer)
			},
		})
	}
	{
		b := &c18Builder{}
		b.reqHdr(func(w interface{}) *req { return &w.(*appendReq).req })
		b.u64("prevLogIndex", func(w interface{}) *uint64 { return &w.(*appendReq).prevLogIndex })
		b.u64("prevLogTerm", func(w interface{}) *uint64 { return &w.(*appendReq).prevLogTerm })
		b.u64("ldrCommitIndex", func(w interface{}) *uint64 { return &w.(*appendReq).ldrCommitIndex })
		b.u64("numEntries", func(w interface{}) *uint64 { return &w.(*appendReq).numEntries })
		ts = append(ts, &c18Type{name: "appendReq", fields: b.fields,
			newWork: func() interface{} { return &appendReq{} },
			encode:  func(v interface{}, w io.Writer) error { return v.(*appendReq).encode(w) },
			decode: func(_ interface{}, r io.Reader) (interface{}, error) {
				m := &appendReq{req{9, 9}, 9, 9, 9, 9}
				err := m.decode(r)
				return m, err
			},
			canon: func(v interface{}) string {
				m := v.(*appendReq)
				return fmt.Sprintf("appendReq{%d,%d,%d,%d,%d,%d}", m.term, m.src, m.prevLogIndex, m.prevLogTerm, m.ldrCommitIndex, m.numEntries)
			},
		})
	}
	{
		b := &c18Builder{}
		b.reqHdr(func(w interface{}) *req { return &w.(*timeoutNowReq).req })
		ts = append(ts, &c18Type{name: "timeoutNowReq", fields: b.fields,
			newWork: func() interface{} { return &timeoutNowReq{} },
			encode:  func(v interface{}, w io.Writer) error { return v.(*timeoutNowReq).encode(w) },
			decode: func(_ interface{}, r io.Reader) (interface{}, error) {
				m := &timeoutNowReq{req{9, 9}}
				err := m.decode(r)
				return m, err
			},
			canon: func(v interface{}) string {
				m := v.(*timeoutNowReq)
				return fmt.Sprintf("timeoutNowReq{%d,%d}", m.term, m.src)
			},
		})
	}
	type isnapW struct {
		m   installSnapReq
		cfg c18Cfg
	}
	for k := 0; k <= maxNodes; k++ {
		b := &c18Builder{}
		b.reqHdr(func(w interface{}) *req { return &w.(*isnapW).m.req })
		b.u64("lastIndex", func(w interface{}) *uint64 { return &w.(*isnapW).m.lastIndex })
		b.u64("lastTerm", func(w interface{}) *uint64 { return &w.(*isnapW).m.lastTerm })
		b.cfg("lastConfig.", k, func(w interface{}) *c18Cfg { return &w.(*isnapW).cfg })
		b.i64("size", func(w interface{}) *int64 { return &w.(*isnapW).m.size })
		ts = append(ts, &c18Type{name: c18ConfigName("installSnapReq", k), fields: b.fields, unordered: k >= 2,
			newWork: func() interface{} { return &isnapW{} },
			finish: func(w interface{}) interface{} {
				iw := w.(*isnapW)
				m := iw.m
				m.lastConfig = iw.cfg.config()
				return &m
			},
			encode: func(v interface{}, w io.Writer) error { return v.(*installSnapReq).encode(w) },
			decode: func(_ interface{}, r io.Reader) (interface{}, error) {
				m := &installSnapReq{req: req{9, 9}, lastIndex: 9, lastTerm: 9, size: 9}
				err := m.decode(r)
				return m, err
			},
			canon: func(v interface{}) string {
				m := v.(*installSnapReq)
				return fmt.Sprintf("installSnapReq{%d,%d,%d,%d,%s,%d}", m.term, m.src, m.lastIndex, m.lastTerm, c18CanonConfig(m.lastConfig), m.size)
			},
		})
	}

	// ---- responses
	ts = append(ts,
		c18RespType("identityResp", false,
			func(w *c18RespW) response { return &identityResp{w.resp} },
			func(v interface{}) (resp, uint64) { return v.(*identityResp).resp, 0 }),
		c18RespType("voteResp", false,
			func(w *c18RespW) response { return &voteResp{w.resp} },
			func(v interface{}) (resp, uint64) { return v.(*voteResp).resp, 0 }),
		c18RespType("appendResp", true,
			func(w *c18RespW) response { return &appendResp{w.resp, w.lastLogIndex} },
			func(v interface{}) (resp, uint64) { return v.(*appendResp).resp, v.(*appendResp).lastLogIndex }),
		c18RespType("installSnapResp", false,
			func(w *c18RespW) response { return &installSnapResp{w.resp} },
			func(v interface{}) (resp, uint64) { return v.(*installSnapResp).resp, 0 }),
		c18RespType("timeoutNowResp", false,
			func(w *c18RespW) response { return &timeoutNowResp{w.resp} },
			func(v interface{}) (resp, uint64) { return v.(*timeoutNowResp).resp, 0 }),
	)

	// ---- Node
	{
		b := &c18Builder{}
		b.node("", true, func(w interface{}) *Node { return w.(*Node) })
		ts = append(ts, &c18Type{name: "Node", fields: b.fields,
			newWork: func() interface{} { return &Node{} },
			finish:  func(w interface{}) interface{} { return *w.(*Node) },
			encode:  func(v interface{}, w io.Writer) error { return v.(Node).encode(w) },
			decode: func(_ interface{}, r io.Reader) (interface{}, error) {
				n := Node{9, "stale", true, "stale", 9}
				err := n.decode(r)
				return n, err
			},
			canon: func(v interface{}) string { return c18CanonNode(v.(Node)) },
		})
	}

	// ---- Config
	for k := 0; k <= maxNodes; k++ {
		b := &c18Builder{}
		b.cfg("", k, func(w interface{}) *c18Cfg { return w.(*c18Cfg) })
		ts = append(ts, &c18Type{name: c18ConfigName("Config", k), fields: b.fields, unordered: k >= 2,
			newWork: func() interface{} { return &c18Cfg{} },
			finish:  func(w interface{}) interface{} { return w.(*c18Cfg).config() },
			encode:  func(v interface{}, w io.Writer) error { return c18EncodeConfig(v.(Config), w) },
			decode: func(_ interface{}, r io.Reader) (interface{}, error) {
				c, err := c18DecodeConfig(r)
				return c, err
			},
			canon: func(v interface{}) string { return c18CanonConfig(v.(Config)) },
		})
	}

	// ---- snapshotMeta
	type metaW struct {
		m   snapshotMeta
		cfg c18Cfg
	}
	for k := 0; k <= maxNodes; k++ {
		b := &c18Builder{}
		b.u64("index", func(w interface{}) *uint64 { return &w.(*metaW).m.index })
		b.u64("term", func(w interface{}) *uint64 { return &w.(*metaW).m.term })
		b.cfg("config.", k, func(w interface{}) *c18Cfg { return &w.(*metaW).cfg })
		b.i64("size", func(w interface{}) *int64 { return &w.(*metaW).m.size })
		ts = append(ts, &c18Type{name: c18ConfigName("snapshotMeta", k), fields: b.fields, unordered: k >= 2,
			newWork: func() interface{} { return &metaW{} },
			finish: func(w interface{}) interface{} {
				mw := w.(*metaW)
				m := mw.m
				m.config = mw.cfg.config()
				return &m
			},
			encode: func(v interface{}, w io.Writer) error { return v.(*snapshotMeta).encode(w) },
			decode: func(_ interface{}, r io.Reader) (interface{}, error) {
				m := &snapshotMeta{index: 9, term: 9, size: 9}
				err := m.decode(r)
				return m, err
			},
			canon: func(v interface{}) string {
				m := v.(*snapshotMeta)
				return fmt.Sprintf("snapshotMeta{%d,%d,%s,%d}", m.index, m.term, c18CanonConfig(m.config), m.size)
			},
		})
	}

	// ---- Replication
	{
		b := &c18Builder{}
		b.repl("", true, func(w interface{}) *Replication { return w.(*Replication) })
		ts = append(ts, &c18Type{name: "Replication", fields: b.fields,
			newWork: func() interface{} { return &Replication{} },
			encode:  func(v interface{}, w io.Writer) error { return v.(*Replication).encode(w) },
			decode: func(_ interface{}, r io.Reader) (interface{}, error) {
				m := &Replication{}
				err := m.decode(r)
				return m, err
			},
			canon: func(v interface{}) string { return c18CanonRepl(*v.(*Replication)) },
		})
	}

	// ---- Info (status report)
	infoShapes := [][3]int{}
	for nf := 0; nf <= maxFlrs; nf++ {
		for _, kk := range [][2]int{{0, 0}, {1, 2}, {2, 1}} {
			infoShapes = append(infoShapes, [3]int{nf, kk[0], kk[1]})
		}
	}
	if thorough {
		infoShapes = append(infoShapes, [3]int{1, 3, 4}, [3]int{2, 4, 3})
	}
	for _, sh := range infoShapes {
		nf, kc, kl := sh[0], sh[1], sh[2]
		b := &c18Builder{}
		b.info("", nf, kc, kl, func(w interface{}) *c18InfoW { return w.(*c18InfoW) })
		ts = append(ts, &c18Type{name: fmt.Sprintf("Info/%df,%dn+%dn", nf, kc, kl), fields: b.fields,
			unordered: nf >= 2 || kc >= 2 || kl >= 2,
			newWork:   func() interface{} { return &c18InfoW{} },
			finish:    func(w interface{}) interface{} { return w.(*c18InfoW).value() },
			encode:    func(v interface{}, w io.Writer) error { return v.(Info).encode(w) },
			decode: func(_ interface{}, r io.Reader) (interface{}, error) {
				i := Info{}
				err := i.decode(r)
				return i, err
			},
			canon: func(v interface{}) string { return c18CanonInfo(v.(Info)) },
		})
	}

	ts = append(ts, c18TaskRespTypes(maxNodes, maxFlrs)...)
	return ts
}

// ---------------------------------------------------------------- admin task responses

type c18TaskCase struct {
	typ    taskType
	result interface{} // uint64 | Config | Info | nil
	err    error       // the task's error (what Task.Err() returns on the server)
	mode   int         // how a client must be able to recognise err after the round trip
}

const (
	c18ModeText  = iota // text preserved (kind is not promised by the statement)
	c18ModeKind         // dynamic type preserved (InProgressError)
	c18ModeExact        // == (sentinels, ErrNotCommitReady) / field-wise (NotLeaderError)
)

var c18TaskTypes = []taskType{taskInfo, taskChangeConfig, taskWaitForStableConfig, taskTakeSnapshot, taskTransferLdr}
var c18TaskTypesDesc = []string{"info", "changeConfig", "waitForStableConfig", "takeSnapshot", "transferLdr"}

func c18CanonResult(v interface{}) string {
	switch r := v.(type) {
	case nil:
		return "nil"
	case uint64:
		return fmt.Sprintf("u64:%d", r)
	case Config:
		return c18CanonConfig(r)
	case Info:
		return c18CanonInfo(r)
	}
	return fmt.Sprintf("?%T:%v", v, v)
}

func c18CanonTask(v interface{}) string {
	c := v.(*c18TaskCase)
	return fmt.Sprintf("task{%d,%s,%s}", c.typ, c18CanonResult(c.result), c18CanonErr(c.err))
}

func c18TaskEqual(expv, gotv interface{}) (diff string) {
	defer func() {
		if p := recover(); p != nil {
			diff = fmt.Sprintf("comparison panicked: %v", p)
		}
	}()
	exp, got := expv.(*c18TaskCase), gotv.(*c18TaskCase)
	if exp.err == nil {
		if got.err != nil {
			return fmt.Sprintf("result %s came back as error %s", c18CanonResult(exp.result), c18CanonErr(got.err))
		}
		if a, b := c18CanonResult(exp.result), c18CanonResult(got.result); a != b {
			return "result " + a + " came back as " + b
		}
		return ""
	}
	if got.err == nil {
		return "error " + c18CanonErr(exp.err) + " came back as result " + c18CanonResult(got.result)
	}
	if got.result != nil {
		return "error response decoded with non-nil result " + c18CanonResult(got.result)
	}
	switch exp.mode {
	case c18ModeExact:
		if got.err != exp.err { // interface equality: same dynamic type and equal value
			return "error " + c18CanonErr(exp.err) + " came back as " + c18CanonErr(got.err) + " (not == to the original)"
		}
	case c18ModeKind:
		if fmt.Sprintf("%T", got.err) != fmt.Sprintf("%T", exp.err) {
			return "error " + c18CanonErr(exp.err) + " came back as " + c18CanonErr(got.err) + " (kind lost)"
		}
	default:
		if got.err.Error() != exp.err.Error() {
			return "error text " + c18S(exp.err.Error()) + " came back as " + c18S(got.err.Error())
		}
	}
	return ""
}

func c18TaskType(name string, b *c18Builder, unordered bool, finish func(w interface{}) interface{}, newWork func() interface{}) *c18Type {
	return &c18Type{name: name, fields: b.fields, unordered: unordered,
		newWork: newWork, finish: finish,
		encode: func(v interface{}, w io.Writer) error {
			c := v.(*c18TaskCase)
			t := newTask()
			if c.err != nil {
				t.result = c.err
			} else {
				t.result = c.result
			}
			return encodeTaskResp(t, w)
		},
		decode: func(exp interface{}, r io.Reader) (interface{}, error) {
			typ := exp.(*c18TaskCase).typ
			res, err := decodeTaskResp(typ, r)
			return &c18TaskCase{typ: typ, result: res, err: err}, nil
		},
		canon: c18CanonTask,
		equal: c18TaskEqual,
		prefixOK: func(v interface{}, _ error) bool {
			// a truncated response must surface as a transport error, not as a task outcome
			e := v.(*c18TaskCase).err
			return e == io.EOF || e == io.ErrUnexpectedEOF
		},
		observe: func(expv, gotv interface{}, st *c18Stats) {
			exp, got := expv.(*c18TaskCase), gotv.(*c18TaskCase)
			if _, ok := exp.err.(InProgressError); ok && got.err != exp.err {
				st.note("InProgressError: kind preserved but value/text not (decoded text is wrapped twice)")
			}
			if _, ok := exp.err.(TimeoutError); ok {
				if _, ok := got.err.(TimeoutError); !ok {
					st.note("TimeoutError: comes back as a plain error with the same text (kind not preserved; not demanded by the statement)")
				}
			}
		},
	}
}

type c18NamedErr struct {
	desc string
	err  error
	mode int
}

func c18TaskErrors() []c18NamedErr {
	var out []c18NamedErr
	for _, s := range []struct {
		n string
		e error
	}{
		{"ErrLockExists", ErrLockExists}, {"ErrServerClosed", ErrServerClosed}, {"ErrNodeRemoved", ErrNodeRemoved},
		{"ErrIdentityAlreadySet", ErrIdentityAlreadySet}, {"ErrIdentityNotSet", ErrIdentityNotSet},
		{"ErrFaultyFollower", ErrFaultyFollower}, {"ErrNotCommitReady", ErrNotCommitReady}, {"ErrStaleConfig", ErrStaleConfig},
		{"ErrSnapshotThreshold", ErrSnapshotThreshold}, {"ErrNoUpdates", ErrNoUpdates}, {"ErrQuorumUnreachable", ErrQuorumUnreachable},
		{"ErrTransferNoVoter", ErrTransferNoVoter}, {"ErrTransferSelf", ErrTransferSelf},
		{"ErrTransferTargetNonvoter", ErrTransferTargetNonvoter}, {"ErrTransferInvalidTarget", ErrTransferInvalidTarget},
		{"errInvalidTask", errInvalidTask}, {"errStop", errStop}, {"errAssertion", errAssertion}, {"errUnreachable", errUnreachable},
	} {
		out = append(out, c18NamedErr{s.n, s.e, c18ModeExact})
	}
	for i, s := range c18Str {
		out = append(out, c18NamedErr{"InProgressError(" + c18StrDesc[i] + ")", InProgressError(s), c18ModeKind})
	}
	out = append(out, c18NamedErr{"InProgressError(takeSnapshot)", InProgressError("takeSnapshot"), c18ModeKind})
	for i, s := range c18Str {
		out = append(out, c18NamedErr{"TimeoutError(" + c18StrDesc[i] + ")", TimeoutError(s), c18ModeText})
	}
	for oi, op := range c18Str {
		for i, s := range c18Str {
			out = append(out, c18NamedErr{"OpError(op=" + c18StrDesc[oi] + ",err=" + c18StrDesc[i] + ")", OpError{op, errors.New(s)}, c18ModeText})
		}
	}
	for i, s := range c18Str {
		out = append(out, c18NamedErr{"errors.New(" + c18StrDesc[i] + ")", errors.New(s), c18ModeText})
		out = append(out, c18NamedErr{"fmt.Errorf(raft.bootstrap: %s)(" + c18StrDesc[i] + ")", fmt.Errorf("raft.bootstrap: %s", s), c18ModeText})
	}
	out = append(out, c18NamedErr{"IdentityError", IdentityError{1 << 63, ^uint64(0), "a:1"}, c18ModeText})
	out = append(out, c18NamedErr{"plainError(user text)", plainError("some other text"), c18ModeExact})
	out = append(out, c18NamedErr{"temporaryError(user text)", temporaryError(c18Long), c18ModeExact})
	return out
}

func c18TaskRespTypes(maxNodes, maxFlrs int) []*c18Type {
	var ts []*c18Type
	newCase := func() interface{} { return &c18TaskCase{} }
	taskField := func(b *c18Builder, p func(w interface{}) *c18TaskCase) {
		b.add(c18Field{name: "task", n: len(c18TaskTypes), b: len(c18TaskTypes) - 1,
			desc: func(i int) string { return c18TaskTypesDesc[i] },
			set:  func(w interface{}, i int) { p(w).typ = c18TaskTypes[i] }})
	}

	// errors: every task type x every error kind
	{
		errs := c18TaskErrors()
		b := &c18Builder{}
		taskField(b, func(w interface{}) *c18TaskCase { return w.(*c18TaskCase) })
		b.add(c18Field{name: "err", n: len(errs), b: len(errs) - 1,
			desc: func(i int) string { return errs[i].desc },
			set: func(w interface{}, i int) {
				c := w.(*c18TaskCase)
				c.err, c.mode = errs[i].err, errs[i].mode
			}})
		ts = append(ts, c18TaskType("taskResp.err", b, false, nil, newCase))
	}
	// NotLeaderError: every task type x Node product (the zero Node = leader unknown) x Lost
	{
		type nlW struct {
			c    c18TaskCase
			node Node
			lost bool
		}
		b := &c18Builder{}
		taskField(b, func(w interface{}) *c18TaskCase { return &w.(*nlW).c })
		b.node("Leader.", true, func(w interface{}) *Node { return &w.(*nlW).node })
		b.boolean("Lost", func(w interface{}) *bool { return &w.(*nlW).lost })
		ts = append(ts, c18TaskType("taskResp.notLeader", b, false,
			func(w interface{}) interface{} {
				n := w.(*nlW)
				c := n.c
				c.err, c.mode = NotLeaderError{n.node, n.lost}, c18ModeExact
				return &c
			},
			func() interface{} { return &nlW{} }))
	}
	// results, per task type
	{
		b := &c18Builder{}
		b.add(c18Field{name: "task", n: 2, b: 1,
			desc: func(i int) string { return []string{"changeConfig", "transferLdr"}[i] },
			set:  func(w interface{}, i int) { w.(*c18TaskCase).typ = []taskType{taskChangeConfig, taskTransferLdr}[i] }})
		ts = append(ts, c18TaskType("taskResp.nil", b, false, nil, newCase))
	}
	{
		b := &c18Builder{}
		b.add(c18Field{name: "snapIndex", n: len(c18U64), b: 4,
			desc: func(i int) string { return c18U64Desc[i] },
			set: func(w interface{}, i int) {
				c := w.(*c18TaskCase)
				c.typ, c.result = taskTakeSnapshot, c18U64[i]
			}})
		ts = append(ts, c18TaskType("taskResp.uint64", b, false, nil, newCase))
	}
	type cfgW struct {
		c   c18TaskCase
		cfg c18Cfg
	}
	for k := 0; k <= maxNodes; k++ {
		b := &c18Builder{}
		b.cfg("", k, func(w interface{}) *c18Cfg { return &w.(*cfgW).cfg })
		ts = append(ts, c18TaskType(c18ConfigName("taskResp.Config", k), b, k >= 2,
			func(w interface{}) interface{} {
				cw := w.(*cfgW)
				return &c18TaskCase{typ: taskWaitForStableConfig, result: cw.cfg.config()}
			},
			func() interface{} { return &cfgW{} }))
	}
	for nf := 0; nf <= maxFlrs; nf++ {
		kc, kl := []int{0, 1, 2, 2}[nf], []int{0, 2, 1, 3}[nf]
		b := &c18Builder{}
		b.info("", nf, kc, kl, func(w interface{}) *c18InfoW { return w.(*c18InfoW) })
		ts = append(ts, c18TaskType(fmt.Sprintf("taskResp.Info/%df,%dn+%dn", nf, kc, kl), b, nf >= 2 || kc >= 2 || kl >= 2,
			func(w interface{}) interface{} {
				return &c18TaskCase{typ: taskInfo, result: w.(*c18InfoW).value()}
			},
			func() interface{} { return &c18InfoW{} }))
	}
	return ts
}

var _ = bytes.NewReader

// ---------------------------------------------------------------- reference layout walker
//
// An independent description of the byte layout of every type (fixed-width
// little-endian integers, uint32 length before byte strings, uint32 count
// before repeated records).  Every encoding produced by the real encoders is
// walked before it is handed to the real decoders: all length/count prefixes
// must fit and the walk must end exactly at the end of the encoding.  This is
// an oracle of its own (`encode-layout`), and it keeps structurally broken
// encodings (an encoder writing a wrong length) away from the decoders, which
// would allocate whatever a misread length prefix says.

type c18Cur struct {
	b   []byte
	pos int
	err string
}

func (c *c18Cur) fail(format string, a ...interface{}) bool {
	if c.err == "" {
		c.err = fmt.Sprintf(format, a...) + fmt.Sprintf(" at offset %d of %d", c.pos, len(c.b))
	}
	return false
}

func (c *c18Cur) skip(n int, what string) bool {
	if c.err != "" {
		return false
	}
	if len(c.b)-c.pos < n {
		return c.fail("%s needs %d bytes, %d left", what, n, len(c.b)-c.pos)
	}
	c.pos += n
	return true
}

func (c *c18Cur) u8(what string) (uint8, bool) {
	if !c.skip(1, what) {
		return 0, false
	}
	return c.b[c.pos-1], true
}

func (c *c18Cur) u32(what string) (uint32, bool) {
	if !c.skip(4, what) {
		return 0, false
	}
	return byteOrder.Uint32(c.b[c.pos-4:]), true
}

// str walks a length-prefixed byte string and returns its content.
func (c *c18Cur) str(what string) ([]byte, bool) {
	n, ok := c.u32(what + " length")
	if !ok {
		return nil, false
	}
	if int64(n) > int64(len(c.b)-c.pos) {
		c.pos -= 4
		return nil, c.fail("%s: length prefix %d exceeds the %d bytes that follow", what, n, len(c.b)-c.pos-4)
	}
	c.pos += int(n)
	return c.b[c.pos-int(n) : c.pos], true
}

func (c *c18Cur) node(what string) bool {
	c.skip(8, what+".ID")
	c.str(what + ".Addr")
	c.skip(1, what+".Voter")
	c.str(what + ".Data")
	return c.skip(1, what+".Action")
}

func (c *c18Cur) entry(what string) ([]byte, bool) {
	c.skip(17, what+" index+term+typ")
	return c.str(what + ".data")
}

// config walks a Config travelling as an entry and its node list inside the entry data.
func (c *c18Cur) config(what string) bool {
	data, ok := c.entry(what)
	if !ok {
		return false
	}
	in := &c18Cur{b: data}
	n, ok := in.u32(what + " node count")
	for i := uint32(0); ok && i < n && in.err == ""; i++ {
		in.node(fmt.Sprintf("%s.node[%d]", what, i))
	}
	if in.err == "" && in.pos != len(in.b) {
		in.fail("%s: %d nodes end before the entry data does", what, n)
	}
	if in.err != "" {
		return c.fail("%s (inside the entry data: %s)", what, in.err)
	}
	return true
}

func (c *c18Cur) repl(what string) bool {
	c.skip(24, what+" ID+MatchIndex+Unreachable")
	c.str(what + ".ErrMessage")
	return c.skip(8, what+".Round")
}

func (c *c18Cur) info(what string) bool {
	c.skip(16, what+" CID+NID")
	c.str(what + ".Addr")
	c.skip(8+1+7*8, what+" Term..LastApplied")
	c.config(what + ".Committed")
	c.config(what + ".Latest")
	n, ok := c.u32(what + " follower count")
	for i := uint32(0); ok && i < n && c.err == ""; i++ {
		c.repl(fmt.Sprintf("%s.follower[%d]", what, i))
	}
	return c.err == ""
}

func (c *c18Cur) resp(what string) bool {
	c.skip(8, what+".term")
	r, ok := c.u8(what + ".result")
	if ok && rpcResult(r) == unexpectedErr {
		c.str(what + ".op")
		c.str(what + ".err")
	}
	return c.err == ""
}

func (c *c18Cur) taskResp(typ taskType) bool {
	et, ok := c.str("errType")
	if !ok {
		return false
	}
	if len(et) > 0 {
		if string(et) == "raft.NotLeaderError" {
			c.node("NotLeaderError.Leader")
			return c.skip(1, "NotLeaderError.Lost")
		}
		_, ok := c.str("error text")
		return ok
	}
	switch typ {
	case taskInfo:
		return c.info("Info")
	case taskWaitForStableConfig:
		return c.config("Config")
	case taskTakeSnapshot:
		return c.skip(8, "snapIndex")
	}
	return true
}

// c18Layout walks one encoding of the named type.
func c18Layout(name string, exp interface{}, c *c18Cur) {
	base := name
	if i := strings.IndexByte(base, '/'); i >= 0 {
		base = base[:i]
	}
	switch base {
	case "entry":
		c.entry("entry")
	case "identityReq":
		c.skip(32, "term+src+cid+nid")
	case "voteReq":
		c.skip(33, "term+src+lastLogIndex+lastLogTerm+transfer")
	case "appendReq":
		c.skip(48, "term+src+prevLogIndex+prevLogTerm+ldrCommitIndex+numEntries")
	case "timeoutNowReq":
		c.skip(16, "term+src")
	case "installSnapReq":
		c.skip(32, "term+src+lastIndex+lastTerm")
		c.config("lastConfig")
		c.skip(8, "size")
	case "identityResp", "voteResp", "installSnapResp", "timeoutNowResp":
		c.resp("resp")
	case "appendResp":
		c.resp("resp")
		c.skip(8, "lastLogIndex")
	case "Node":
		c.node("Node")
	case "Config":
		c.config("Config")
	case "snapshotMeta":
		c.skip(16, "index+term")
		c.config("config")
		c.skip(8, "size")
	case "Replication":
		c.repl("Replication")
	case "Info":
		c.info("Info")
	default:
		if strings.HasPrefix(base, "taskResp.") {
			c.taskResp(exp.(*c18TaskCase).typ)
		} else {
			c.fail("no reference layout for %s", name)
		}
	}
	if c.err == "" && c.pos != len(c.b) {
		c.fail("the reference layout ends after %d bytes, the encoding has %d", c.pos, len(c.b))
	}
}
