//go:build verif
// +build verif

package raft

import "time"

// Scenario family "transfer" (C16): leadership transfer with every target
// choice, loss/delay of the timeout-now request, its reply and the ensuing
// vote requests, transfer/new-term timers, concurrent client and membership
// tasks.

type xferSeed struct {
	name   string
	nodes  int
	voters []uint64
	nonv   []uint64
	script []string
	admin  []string
}

var xferSeeds = []xferSeed{
	{"3v", 3, []uint64{1, 2, 3}, nil, []string{"T:1", "run"},
		[]string{"transfer:2", "transfer:0", "transfer:1", "transfer:9", "demote:3"}},
	{"lagging", 3, []uint64{1, 2, 3}, nil, []string{"T:1", "run", "block:1:3", "update:1", "run", "heal:1:3"},
		[]string{"transfer:3", "transfer:0"}},
	{"nonvoter", 3, []uint64{1, 2}, []uint64{3}, []string{"T:1", "run"},
		[]string{"transfer:3", "transfer:2", "transfer:0", "promote:3"}},
}

func scenTransfer(seed xferSeed, dev int, orderCost bool) *simScenario {
	name := "transfer-" + seed.name
	if orderCost {
		name += "-delaybounded"
	}
	return &simScenario{
		Name:   name,
		Opt:    worldOpt{Nodes: seed.nodes, Voters: seed.voters, Nonvoters: seed.nonv, EagerFSM: true, EagerLU: true, EagerConnect: true},
		Script: seed.script,
		Menu: simMenu{OrderCost: orderCost, Timeouts: true, MaxTerm: 4, Drops: true, Crashes: true, Shutdowns: true,
			Admin: seed.admin, MaxAdmin: 2, Clients: []string{"update"}, MaxUpdates: 1, ClientNodes: []int{0}},
		MaxDev:  dev,
		Crashes: 1,
	}
}

// overlapping requests: a second TransferLeadership while the first is pending (given targets only: no map-order
// dependent choice), with loss of the timeout-now request / its reply and the transfer timer
func scenTransferOverlap(dev int) *simScenario {
	sc := scenTransfer(xferSeed{"overlap", 3, []uint64{1, 2, 3}, nil, []string{"T:1", "run"}, []string{"transfer:2", "transfer:3"}}, dev, false)
	sc.Menu = simMenu{OrderCost: true, Timeouts: true, MaxTerm: 3, Drops: true, Admin: []string{"transfer:2", "transfer:3"}, MaxAdmin: 2}
	sc.Name += "-delaybounded"
	sc.Crashes = 0
	return sc
}

func transferScenarios(tier string) []*simScenario {
	out := []*simScenario{scenTransferOverlap(3)}
	if tier == "thorough" {
		out[0].MaxDev = 4
	}
	for _, s := range xferSeeds {
		if tier == "thorough" {
			out = append(out, scenTransfer(s, 3, false), scenTransfer(s, 4, true))
		} else {
			out = append(out, scenTransfer(s, 2, false), scenTransfer(s, 3, true))
		}
	}
	return out
}

func init() {
	for _, sc := range transferScenarios("quick") {
		simScenarios[sc.Name] = sc
	}
	simScenarios["transfer-overlap-db"] = scenTransferOverlap(3)
	c16 := &simCheckSpec{Prop: "C16", Oracles: []string{"transfer", "leader"},
		Scenarios: transferScenarios,
		Budget: func(tier string) time.Duration {
			if tier == "thorough" {
				return 30 * time.Minute
			}
			return 240 * time.Second
		},
		MustReach: []string{"leaders"},
	}
	vkChecks["C16"] = func(args []string) int { return runSimCheck(c16, args) }
}
