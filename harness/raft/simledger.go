//go:build verif
// +build verif

package raft

// History ("ledger") oracles of the E-SIM explorer (DESIGN.md section 3).
// They read the real in-memory objects while every goroutine is parked and
// the real files.

import (
	"bytes"
	"crypto/sha256"
	"encoding/hex"
	"encoding/json"
	"fmt"
	"io/ioutil"
	"sort"
	"strings"
	"sync"
)

type entryRec struct {
	Term uint64
	Typ  entryType
	Hash string // payload id (updates), canonical config string, or data hash
}

func (e entryRec) String() string { return fmt.Sprintf("t%d/%d/%s", e.Term, e.Typ, e.Hash) }

type simViolation struct {
	Oracle string
	Key    string
	Desc   string
	Clock  int
	Full   []simEvent `json:",omitempty"` // complete event history when it extends the explored one (continuations)
	Final  string     `json:",omitempty"` // found by this final check (progress / shutdown), started from Prefix
	Prefix []simEvent `json:",omitempty"` // the explored history the final check started from
}

type nodeSnap struct {
	up                 bool
	state              State
	term               uint64
	lastLogIndex       uint64
	commitIndex        uint64
	latestIdx, commIdx uint64
	leader             uint64
	inc                int
	xfer               bool // leadership transfer in progress
}

type ledger struct {
	w *world

	leaderOf        map[uint64]uint64      // term -> node id
	committed       map[uint64]entryRec    // index -> entry
	commitTerm      map[uint64]uint64      // index -> term of the node that was first seen with the index committed
	seen            map[[2]uint64]entryRec // (index, term) -> entry
	prevTerm        map[[2]uint64]uint64   // (index, term) -> term of index-1
	votes           map[[2]uint64]uint64   // (voter, term) -> candidate
	maxTermReported map[uint64]uint64      // voter -> highest term reported in any reply / status (across restarts)
	ackStored       map[uint64][2]uint64   // node -> (index, term) of the newest entry acknowledged as stored (success append replies)

	// per node, since last (re)start
	had     map[int]map[uint64]bool // node -> committed indices the node held (log or snapshot)
	info    map[int]*infoRec
	ldrLog  map[int]*ldrLogRec
	configs map[uint64]string // index -> canonical config (from committed entries)

	reports    map[[2]int]Info      // (node, incarnation) -> last status report obtained through a real GetInfo task
	roundDone  map[[3]uint64]uint64 // (leader, term, node) -> LastIndex of the last completed round
	commitSeen map[int]uint64       // node -> highest commit index the node itself has reported

	newsAt int // clock of the last transition in which a leader emerged or an index was committed
	ghost  int // node whose outputs of the current transition are discarded (-1: none)

	prev     []nodeSnap
	viol     []simViolation
	seenViol map[string]bool

	stats struct {
		leaders, commits, elections, configChanges, snapshots, compactions, restarts, linChecks, infoReports int
		snapInstalledKeep, snapInstalledReset, snapIgnored                                                   int
	}
	oracles map[string]bool // enabled optional oracles (durable, ...)
}

type infoRec struct {
	inc                            int
	term, commit, applied, snapIdx uint64
}

type ldrLogRec struct {
	term uint64
	last uint64
	hash []string
}

func newLedger(w *world) *ledger {
	l := &ledger{
		w:         w,
		leaderOf:  map[uint64]uint64{},
		committed: map[uint64]entryRec{}, commitTerm: map[uint64]uint64{},
		seen:            map[[2]uint64]entryRec{},
		prevTerm:        map[[2]uint64]uint64{},
		votes:           map[[2]uint64]uint64{},
		maxTermReported: map[uint64]uint64{},
		ackStored:       map[uint64][2]uint64{},
		had:             map[int]map[uint64]bool{},
		info:            map[int]*infoRec{},
		ldrLog:          map[int]*ldrLogRec{},
		configs:         map[uint64]string{},
		seenViol:        map[string]bool{},
		oracles:         map[string]bool{},
		roundDone:       map[[3]uint64]uint64{}, commitSeen: map[int]uint64{},
		reports: map[[2]int]Info{},
		ghost:   -1,
	}
	l.installTracer()
	return l
}

func (l *ledger) violate(oracle, key, desc string) {
	k := oracle + ":" + key
	if l.seenViol[k] {
		return
	}
	l.seenViol[k] = true
	l.viol = append(l.viol, simViolation{Oracle: oracle, Key: key, Desc: desc, Clock: l.w.clock})
}

func canonConfig(c Config) string {
	ids := make([]uint64, 0, len(c.Nodes))
	for id := range c.Nodes {
		ids = append(ids, id)
	}
	sort.Slice(ids, func(i, j int) bool { return ids[i] < ids[j] })
	var sb strings.Builder
	for _, id := range ids {
		n := c.Nodes[id]
		v := "n"
		if n.Voter {
			v = "v"
		}
		fmt.Fprintf(&sb, "%d%s", id, v)
		if n.Action != None {
			fmt.Fprintf(&sb, "!%d", n.Action)
		}
		sb.WriteByte(',')
	}
	return sb.String()
}

func recOf(e *entry) entryRec {
	r := entryRec{Term: e.term, Typ: e.typ}
	switch e.typ {
	case entryUpdate:
		r.Hash = simPayloadID(e.data)
	case entryConfig:
		var c Config
		if err := c.decode(e); err == nil {
			r.Hash = canonConfig(c)
		} else {
			r.Hash = "undecodable"
		}
	case entryNop:
		r.Hash = "nop"
	default:
		h := sha256.Sum256(e.data)
		r.Hash = hex.EncodeToString(h[:4])
	}
	return r
}

// ------------------------------------------------------------ callbacks

func (l *ledger) onStart(n *simNode) {
	l.had[n.idx] = map[uint64]bool{}
	delete(l.info, n.idx)
	delete(l.ldrLog, n.idx)
	if n.inc > 1 {
		l.stats.restarts++
		l.checkRestart(n)
	}
}

// onStartFailed: the node could not be restarted on its directory (C10).
func (l *ledger) onStartFailed(n *simNode, err error) {
	l.violate("crash", "restart-fails:"+simErrClass(err), fmt.Sprintf("node %d cannot restart on its storage directory: %v", n.id, err))
}

// checkRestart (C10): a restarted node reports a term and vote no older than
// any it had acknowledged and retains every entry it acknowledged as stored.
func (l *ledger) checkRestart(n *simNode) {
	r := n.r
	if r.term < l.maxTermReported[n.id] {
		l.violate("crash", "term-older-than-acknowledged", fmt.Sprintf("node %d restarted with term %d but had reported term %d", n.id, r.term, l.maxTermReported[n.id]))
	}
	if c, ok := l.votes[[2]uint64{n.id, r.term}]; ok && r.votedFor != c {
		l.violate("crash", "vote-lost", fmt.Sprintf("node %d restarted in term %d with vote %d but had granted its vote in that term to %d", n.id, r.term, r.votedFor, c))
	}
	if a, ok := l.ackStored[n.id]; ok {
		held := false
		if a[0] <= r.snaps.index {
			held = true
		} else if e, ok := l.entryAt(n, a[0]); ok && e.term == a[1] {
			held = true
		}
		if !held {
			l.violate("crash", "acknowledged-entry-lost", fmt.Sprintf("node %d acknowledged entry %d (term %d) as stored but after restart its log is (%d,%d] with snapshot %d", n.id, a[0], a[1], r.log.PrevIndex(), r.lastLogIndex, r.snaps.index))
		}
	}
	// what the node itself reported committed (a leader counted its own copy, a follower had flushed it) is still
	// there: covered by its snapshot or in its log
	if cs := l.commitSeen[n.idx]; cs > r.snaps.index {
		c, known := l.committed[cs]
		e, ok := l.entryAt(n, cs)
		if !ok || (known && e.term != c.Term) {
			l.violate("crash", "committed-entry-lost-by-crash", fmt.Sprintf("node %d had reported index %d committed but after restart its log is (%d,%d] with snapshot %d", n.id, cs, r.log.PrevIndex(), r.lastLogIndex, r.snaps.index))
		}
	}
	l.checkRestartLog(n)
}

// checkRestartLog (C10): after a restart the log is contiguous with the latest
// snapshot and the position the node works with (lastLogIndex / lastLogTerm:
// what it reports in vote requests and appends behind) is that of its log.
func (l *ledger) checkRestartLog(n *simNode) {
	r := n.r
	if r.log.PrevIndex() > r.snaps.index {
		l.violate("crash", "log-not-contiguous-with-snapshot", fmt.Sprintf("node %d restarted with snapshot %d and a log starting after %d", n.id, r.snaps.index, r.log.PrevIndex()))
	}
	if r.lastLogIndex != r.log.LastIndex() {
		l.violate("crash", "log-position-inconsistent", fmt.Sprintf("node %d restarted with lastLogIndex %d but its log is (%d,%d] (snapshot %d)", n.id, r.lastLogIndex, r.log.PrevIndex(), r.log.LastIndex(), r.snaps.index))
		return
	}
	want := r.snaps.term
	if r.log.LastIndex() > r.log.PrevIndex() {
		e, ok := l.entryAt(n, r.log.LastIndex())
		if !ok {
			return
		}
		want = e.term
	} else if r.log.LastIndex() == 0 {
		want = 0
	}
	if r.lastLogTerm != want {
		l.violate("crash", "log-position-inconsistent", fmt.Sprintf("node %d restarted with lastLogTerm %d but the last entry of its log (%d,%d] / snapshot %d has term %d", n.id, r.lastLogTerm, r.log.PrevIndex(), r.log.LastIndex(), r.snaps.index, want))
	}
}

func (l *ledger) onCrash(n *simNode) {}
func (l *ledger) onServeExit(n *simNode) {
	err := n.serveErr
	if err == ErrServerClosed {
		return
	}
	if err == ErrNodeRemoved {
		// C11: only after the removal is committed on that node
		r := n.r
		if _, ok := r.configs.Committed.Nodes[r.nid]; ok {
			l.violate("removed", "shutdown-before-removal-committed", fmt.Sprintf("node %d returned ErrNodeRemoved but its committed config %s still contains it", n.id, canonConfig(r.configs.Committed)))
		} else if _, ok := r.configs.Latest.Nodes[r.nid]; !ok {
			// the configuration that drops the node must really be committed: covered by
			// the node's commit index and known as committed to the ledger
			k := r.configs.Latest.Index
			if r.commitIndex < k {
				l.violate("removed", "shutdown-before-removal-committed", fmt.Sprintf("node %d returned ErrNodeRemoved on config %d {%s} but its commit index is only %d", n.id, k, canonConfig(r.configs.Latest), r.commitIndex))
			}
		}
		return
	}
	l.violate("alive", "serve-exit:"+simErrClass(err), fmt.Sprintf("node %d: Serve returned %v", n.id, err))
}

func simErrClass(err error) string {
	if err == nil {
		return "nil"
	}
	s := err.Error()
	// file names without their (scratch) directories: the class must not depend on where the world lives
	fields := strings.Fields(s)
	for i, f := range fields {
		if j := strings.LastIndex(f, "/"); j >= 0 && strings.HasPrefix(f, "/") {
			fields[i] = f[j+1:]
		}
	}
	s = strings.Join(fields, " ")
	if len(s) > 60 {
		s = s[:60]
	}
	return strings.Map(func(r rune) rune {
		if r >= '0' && r <= '9' {
			return '#'
		}
		if r == ' ' {
			return '_'
		}
		return r
	}, s)
}

// installTracer hooks the library's own tracer callbacks (they run inside the
// step, on the raft goroutine, at the instant of the decision).
func (l *ledger) installTracer() {
	tracer.configActionStarted = func(r *Raft, id uint64, action Action) {
		n := simLookup(r)
		if n == nil || n.w != l.w {
			return
		}
		if action == Promote && r.state == Leader {
			repl := r.ldr.repls[id]
			if repl == nil {
				return
			}
			st := &repl.status
			// C11: promoted only after its log caught up with the leader's in a completed round
			// (some round of this leadership was completed, and the node still holds what that round demanded)
			done, ok := l.roundDone[[3]uint64{n.id, r.term, id}]
			if !ok || st.matchIndex < done {
				l.violate("promote", "promoted-before-caught-up", fmt.Sprintf("leader %d (term %d) promotes node %d with matchIndex %d; completed round: %v (lastIndex %d); current %v", n.id, r.term, id, st.matchIndex, ok, done, st.round))
			}
		}
		// a completed round counts for the promotion it was run for: once the node is promoted (or demoted /
		// removed again) a later promotion needs a round of its own
		delete(l.roundDone, [3]uint64{n.id, r.term, id})
	}
	tracer.roundCompleted = func(r *Raft, id uint64, rd round) {
		if n := simLookup(r); n != nil && n.w == l.w {
			l.roundDone[[3]uint64{n.id, r.term, id}] = rd.LastIndex
		}
	}
	tracer.logCompacted = func(r *Raft) {
		if n := simLookup(r); n != nil && n.w == l.w {
			l.stats.compactions++
		}
	}
}

func (l *ledger) onLeaderAct(n *simNode, term uint64, what string) {
	l.claimLeader(term, n.id, what)
}

func (l *ledger) claimLeader(term, id uint64, what string) {
	if cur, ok := l.leaderOf[term]; ok {
		if cur != id {
			l.violate("leader", "two-leaders-in-term", fmt.Sprintf("term %d: node %d acts as leader (%s) but node %d was leader of that term", term, id, what, cur))
		}
		return
	}
	l.leaderOf[term] = id
	l.stats.leaders++
	l.newsAt = l.w.clock
}

func (l *ledger) onFSMUpdate(n *simNode, id string, pos int) {}
func (l *ledger) onFSMRestore(n *simNode, st []string)       {}
func (l *ledger) onTaskDone(st *simTask)                     {}

func (l *ledger) beforeEvent(e simEvent) {
	l.prev = l.prev[:0]
	for _, n := range l.w.nodes {
		s := nodeSnap{up: n.up, inc: n.inc}
		if n.up {
			r := n.r
			s.state, s.term, s.lastLogIndex, s.commitIndex = r.state, r.term, r.lastLogIndex, r.commitIndex
			s.latestIdx, s.commIdx, s.leader = r.configs.Latest.Index, r.configs.Committed.Index, r.leader
			s.xfer = r.state == Leader && r.ldr.transfer.inProgress()
		}
		l.prev = append(l.prev, s)
	}
}

type deliverCtx struct {
	leader  uint64
	term    uint64
	state   State
	voter   bool
	pending *pendingReq
}

var simDeliverCtx deliverCtx

func (l *ledger) beforeDeliver(dst *simNode, c *simConn, req request, dup bool) {
	r := dst.r
	simDeliverCtx = deliverCtx{leader: r.leader, term: r.term, state: r.state, voter: r.configs.Latest.isVoter(r.nid)}
}

func (l *ledger) afterDeliver(dst *simNode, c *simConn, rp *rpc, dup bool) {
	if rp.resp == nil || dst.idx == l.ghost {
		return
	}
	r := dst.r
	term := rp.resp.getTerm()
	// C05: the term a node reports never goes backwards (across restarts too)
	if term < l.maxTermReported[dst.id] {
		l.violate("term", "reply-term-regressed", fmt.Sprintf("node %d replied with term %d after having reported term %d", dst.id, term, l.maxTermReported[dst.id]))
	} else {
		l.maxTermReported[dst.id] = term
	}
	switch req := rp.req.(type) {
	case *voteReq:
		pre := simDeliverCtx
		if rp.resp.getResult() == success {
			// C05: a granted vote for the requested term is durable now
			val, err := openValue(dst.dir, ".term")
			if err != nil {
				l.violate("votedurable", "grant-unreadable", fmt.Sprintf("node %d granted a vote but its term file cannot be read: %v", dst.id, err))
			} else if t, v := val.get(); t != req.term || v != req.src {
				key := "grant-not-durable"
				if !req.transfer && pre.leader != 0 && req.src == pre.leader {
					key = "grant-not-durable:src==known-leader"
				}
				l.violate("votedurable", key, fmt.Sprintf("node %d replied success to vote request (term %d, candidate %d) but its durable (term,vote) is (%d,%d)", dst.id, req.term, req.src, t, v))
			}
			k := [2]uint64{dst.id, req.term}
			if prevC, ok := l.votes[k]; ok && prevC != req.src {
				l.violate("vote", "two-grants-in-term", fmt.Sprintf("node %d granted its vote in term %d to %d and to %d", dst.id, req.term, prevC, req.src))
			} else {
				l.votes[k] = req.src
			}
		}
		// C17: leader stability
		if pre.leader != 0 && !req.transfer && req.src != pre.leader {
			if rp.resp.getResult() == success {
				l.violate("stability", "vote-granted-while-leader-known", fmt.Sprintf("node %d following leader %d granted a vote to %d (no transfer flag)", dst.id, pre.leader, req.src))
			}
			if r.term != pre.term {
				l.violate("stability", "term-raised-while-leader-known", fmt.Sprintf("node %d following leader %d raised its term %d->%d on a vote request of %d (no transfer flag)", dst.id, pre.leader, pre.term, r.term, req.src))
			}
		}
	case *installSnapReq:
		// C09/C03: after a node acknowledged a snapshot, whatever it retains at or below the
		// snapshot's index is what was committed there (else it will apply something else)
		if rp.resp.getResult() == success && rp.readErr == nil {
			// which way the installation went (coverage only)
			switch {
			case r.snaps.index != req.lastIndex:
				l.stats.snapIgnored++
			case r.log.PrevIndex() < req.lastIndex && req.lastIndex <= r.lastLogIndex:
				l.stats.snapInstalledKeep++
			default:
				l.stats.snapInstalledReset++
			}
			for i := r.log.PrevIndex() + 1; i <= r.lastLogIndex && i <= req.lastIndex; i++ {
				c, ok := l.committed[i]
				if !ok {
					continue
				}
				if e, ok := l.entryAt(dst, i); ok && e.term != c.Term {
					l.violate("snapshot", "snapshot-acknowledged-over-conflicting-log", fmt.Sprintf("node %d acknowledged InstallSnapshot(index %d, term %d) but keeps entry %d of term %d where term %d was committed", dst.id, req.lastIndex, req.lastTerm, i, e.term, c.Term))
					break
				}
			}
		}
	case *timeoutNowReq:
		// C11: a node that is not a voter in its own latest configuration refuses to time out now
		if !simDeliverCtx.voter && rp.resp.getResult() == success {
			l.violate("nonvoter", "timeoutnow-accepted-by-nonvoter", fmt.Sprintf("node %d is not a voter in its latest config but accepted a timeout-now request of %d", dst.id, req.src))
		}
	case *appendReq:
		// C10: remember what the node acknowledged as stored
		if rp.resp.getResult() == success && rp.readErr == nil {
			if p := simDeliverCtx.pending; p != nil && p.nEntries > 0 {
				if e, ok := l.entryAt(dst, p.lastIdx); ok {
					if a := l.ackStored[dst.id]; p.lastIdx >= a[0] || e.term != a[1] {
						l.ackStored[dst.id] = [2]uint64{p.lastIdx, e.term}
					}
				}
			}
		}
		// C06: an acknowledged append is already flushed (survives a crash now)
		if l.oracles["durable"] && rp.resp.getResult() == success && rp.readErr == nil && !dup {
			if p := simDeliverCtx.pending; p != nil && p.nEntries > 0 {
				img := l.w.copyDir(dst.dir)
				st, err := openStorage(img, l.w.raftOptions())
				if err != nil {
					l.violate("durable", "ack-image-unopenable", fmt.Sprintf("node %d acknowledged entries up to %d but a copy of its directory cannot be opened: %v", dst.id, p.lastIdx, err))
				} else {
					if st.lastLogIndex < p.lastIdx {
						l.violate("durable", "ack-before-flush", fmt.Sprintf("node %d acknowledged entries up to %d but after a crash now its log ends at %d", dst.id, p.lastIdx, st.lastLogIndex))
					}
					_ = st.log.Close()
				}
			}
		}
	}
}

// ------------------------------------------------------------ state scan

func (l *ledger) afterEvent(e simEvent) {
	w := l.w
	for _, n := range w.nodes {
		if !n.up {
			continue
		}
		l.scanNode(n)
	}
	// second pass: commit-dependent checks once every node's commit index was recorded
	for _, n := range w.nodes {
		if !n.up {
			continue
		}
		l.checkCommitted(n)
		l.checkApplied(n)
		l.checkInfo(n)
	}
	l.checkTasks()
	l.checkTransfer()
	if l.oracles["client"] {
		l.checkClient()
		l.checkLinearizable()
	}
}

type cachedEntry struct {
	e   *entry
	rec entryRec
}

var (
	simRecMu    sync.Mutex
	simRecCache = map[string]*cachedEntry{}
)

// entryAt reads entry i of n's log.  Decoded entries are cached by their raw
// bytes (an entry is immutable once encoded).
func (l *ledger) entryAt(n *simNode, i uint64) (*entry, bool) {
	ce := l.cachedAt(n, i)
	if ce == nil {
		return nil, false
	}
	return ce.e, true
}

func (l *ledger) cachedAt(n *simNode, i uint64) *cachedEntry {
	r := n.r
	if i <= r.log.PrevIndex() || i > r.lastLogIndex {
		return nil
	}
	b, err := r.log.Get(i)
	if err != nil {
		return nil
	}
	simRecMu.Lock()
	ce := simRecCache[string(b)]
	simRecMu.Unlock()
	if ce != nil {
		return ce
	}
	e := &entry{}
	if err := e.decode(bytes.NewReader(b)); err != nil || e.index != i {
		return nil
	}
	ce = &cachedEntry{e: e, rec: recOf(e)}
	simRecMu.Lock()
	if len(simRecCache) > 100000 {
		simRecCache = map[string]*cachedEntry{}
	}
	simRecCache[string(b)] = ce
	simRecMu.Unlock()
	return ce
}

func (l *ledger) recAt(n *simNode, i uint64) (entryRec, *entry, bool) {
	ce := l.cachedAt(n, i)
	if ce == nil {
		return entryRec{}, nil, false
	}
	return ce.rec, ce.e, true
}

func (l *ledger) scanNode(n *simNode) {
	r := n.r
	var p nodeSnap
	if n.idx < len(l.prev) {
		p = l.prev[n.idx]
	}
	// L-leader
	if r.state == Leader {
		l.claimLeader(r.term, n.id, "state=leader")
		if !p.up || p.inc != n.inc || p.state != Leader || p.term != r.term {
			// just won: a majority of the voters of its configuration granted it their vote in THIS term
			// (grants are recorded when the voter answers; the candidate's own vote counts if it is a voter)
			got, voters := 0, 0
			var from []uint64
			for id, nd := range r.configs.Latest.Nodes {
				if !nd.Voter {
					continue
				}
				voters++
				if id == n.id || l.votes[[2]uint64{id, r.term}] == n.id {
					got++
					from = append(from, id)
				}
			}
			if got < voters/2+1 {
				sort.Slice(from, func(i, j int) bool { return from[i] < from[j] })
				l.violate("leader", "leader-without-majority-of-votes", fmt.Sprintf("node %d became leader of term %d with votes of term %d from %v only (%d voters)", n.id, r.term, r.term, from, voters))
			}
		}
	}
	if r.state == Candidate && (!p.up || p.inc != n.inc || p.state != Candidate || p.term != r.term) {
		l.stats.elections++
	}
	// C16: while a transfer is in progress the leader accepts no new entries
	if p.up && p.inc == n.inc && p.xfer && p.state == Leader && r.state == Leader && p.term == r.term && r.lastLogIndex > p.lastLogIndex {
		l.violate("transfer", "entry-accepted-during-transfer", fmt.Sprintf("leader %d appended entries %d..%d while a leadership transfer was in progress", n.id, p.lastLogIndex+1, r.lastLogIndex))
	}
	// C11: a non-voter (in its own latest config) is never candidate or leader
	if r.state == Candidate || (r.state == Leader && (!p.up || p.state != Leader || p.term != r.term)) {
		if !r.configs.Latest.isVoter(r.nid) {
			// a leader that demoted itself keeps leading until that commits; only *becoming* candidate/leader counts
			if r.state == Candidate || !(p.up && p.state == Leader) {
				l.violate("nonvoter", "nonvoter-campaigns", fmt.Sprintf("node %d is %v in term %d but is not a voter in its latest config %s", n.id, r.state, r.term, canonConfig(r.configs.Latest)))
			}
		}
	}
	// C11: a leader that demoted or removed itself stops leading once that change is committed
	if r.state == Leader && r.configs.IsCommitted() && !r.configs.Committed.isVoter(r.nid) {
		l.violate("nonvoter", "leader-not-voter-in-committed-config", fmt.Sprintf("node %d still leads term %d although its committed config %d {%s} does not list it as voter", n.id, r.term, r.configs.Committed.Index, canonConfig(r.configs.Committed)))
	}
	// term monotone per incarnation / durable
	if r.term < l.maxTermReported[n.id] {
		l.violate("term", "term-regressed", fmt.Sprintf("node %d has term %d after having reported %d", n.id, r.term, l.maxTermReported[n.id]))
	}

	// L-match over the retained log
	prevIdx := r.log.PrevIndex()
	var prevT uint64
	havePrev := false
	if prevIdx == r.snaps.index {
		prevT, havePrev = r.snaps.term, true
	}
	if prevIdx == 0 {
		prevT, havePrev = 0, true
	}
	var hashes []string
	for i := prevIdx + 1; i <= r.lastLogIndex; i++ {
		rec, e, ok := l.recAt(n, i)
		if !ok {
			l.violate("alive", "log-entry-unreadable", fmt.Sprintf("node %d: entry %d in (%d,%d] cannot be read", n.id, i, prevIdx, r.lastLogIndex))
			break
		}
		k := [2]uint64{i, e.term}
		if old, ok := l.seen[k]; ok {
			if old != rec {
				l.violate("match", "same-index-term-different-entry", fmt.Sprintf("entry (%d,t%d) is %v on node %d but was seen as %v", i, e.term, rec, n.id, old))
			}
		} else {
			l.seen[k] = rec
		}
		if havePrev {
			if old, ok := l.prevTerm[k]; ok {
				if old != prevT {
					l.violate("match", "same-index-term-different-prefix", fmt.Sprintf("entry (%d,t%d) follows term %d on node %d but follows term %d elsewhere", i, e.term, prevT, n.id, old))
				}
			} else {
				l.prevTerm[k] = prevT
			}
		}
		if e.term < prevT && havePrev {
			l.violate("match", "terms-decrease-in-log", fmt.Sprintf("node %d: entry %d has term %d after term %d", n.id, i, e.term, prevT))
		}
		prevT, havePrev = e.term, true
		hashes = append(hashes, fmt.Sprintf("%d:%v", i, rec))
	}
	// C04: a leader never removes or rewrites entries of its own log
	if r.state == Leader {
		ll := l.ldrLog[n.idx]
		if ll != nil && ll.term == r.term {
			if r.lastLogIndex < ll.last {
				l.violate("match", "leader-truncated-own-log", fmt.Sprintf("leader %d (term %d) shrank its log %d -> %d", n.id, r.term, ll.last, r.lastLogIndex))
			}
			// compare the overlap
			old := map[string]bool{}
			for _, h := range ll.hash {
				old[h] = true
			}
			for _, h := range ll.hash {
				var idx uint64
				fmt.Sscanf(h, "%d:", &idx)
				if idx > prevIdx && idx <= r.lastLogIndex {
					found := false
					for _, nh := range hashes {
						if nh == h {
							found = true
							break
						}
					}
					if !found {
						l.violate("match", "leader-rewrote-own-log", fmt.Sprintf("leader %d (term %d) changed its entry %s", n.id, r.term, h))
					}
				}
			}
		}
		l.ldrLog[n.idx] = &ldrLogRec{term: r.term, last: r.lastLogIndex, hash: hashes}
	} else {
		delete(l.ldrLog, n.idx)
	}

	if r.commitIndex > l.commitSeen[n.idx] && r.commitIndex <= r.lastLogIndex {
		l.commitSeen[n.idx] = r.commitIndex
	}
	// L-commit: record newly committed entries
	if r.commitIndex > r.lastLogIndex {
		l.violate("info", "commit-beyond-log", fmt.Sprintf("node %d: commitIndex %d > lastLogIndex %d", n.id, r.commitIndex, r.lastLogIndex))
	}
	for i := prevIdx + 1; i <= r.commitIndex && i <= r.lastLogIndex; i++ {
		rec, e, ok := l.recAt(n, i)
		if !ok {
			break
		}
		if old, ok := l.committed[i]; ok {
			if old != rec {
				l.violate("commit", "committed-entry-differs", fmt.Sprintf("index %d committed as %v but node %d has committed %v", i, old, n.id, rec))
			}
		} else {
			l.committed[i] = rec
			l.commitTerm[i] = r.term
			l.stats.commits++
			l.newsAt = l.w.clock
			if e.typ == entryConfig {
				l.configs[i] = rec.Hash
				l.stats.configChanges++
			}
			if l.oracles["durable"] {
				l.checkDurable(n, i, e.term)
			}
		}
	}
	if r.snaps.index > 0 && r.snaps.index <= r.commitIndex {
		if old, ok := l.committed[r.snaps.index]; ok && old.Term != r.snaps.term {
			l.violate("commit", "snapshot-term-differs", fmt.Sprintf("node %d: snapshot at %d has term %d, committed entry has term %d", n.id, r.snaps.index, r.snaps.term, old.Term))
		}
	}

	// L-config: checks at the instant a leader appends a configuration
	if r.state == Leader && p.up && p.inc == n.inc {
		from := p.lastLogIndex
		if p.state != Leader || p.term != r.term {
			from = r.ldr.startIndex - 1
		}
		for i := from + 1; i <= r.lastLogIndex; i++ {
			e, ok := l.entryAt(n, i)
			if !ok || e.typ != entryConfig || e.term != r.term {
				continue
			}
			l.checkNewConfig(n, i, e, p)
		}
	}
}

func voterSet(c Config) map[uint64]bool {
	m := map[uint64]bool{}
	for id, n := range c.Nodes {
		if n.Voter {
			m[id] = true
		}
	}
	return m
}

func (l *ledger) checkNewConfig(n *simNode, i uint64, e *entry, p nodeSnap) {
	r := n.r
	var c Config
	if err := c.decode(e); err != nil {
		return
	}
	// predecessor: newest config entry below i in the leader's log, else snapshot label
	var pred Config
	found := false
	for j := i - 1; j > r.log.PrevIndex(); j-- {
		pe, ok := l.entryAt(n, j)
		if ok && pe.typ == entryConfig {
			if err := pred.decode(pe); err == nil {
				found = true
			}
			break
		}
	}
	if !found {
		return // predecessor compacted away: nothing reliable to compare with
	}
	a, b := voterSet(pred), voterSet(c)
	diff := 0
	for id := range a {
		if !b[id] {
			diff++
		}
	}
	for id := range b {
		if !a[id] {
			diff++
		}
	}
	if diff > 1 {
		l.violate("config", "more-than-one-voter-changed", fmt.Sprintf("leader %d appended config %d {%s} after {%s}: %d voters differ", n.id, i, canonConfig(c), canonConfig(pred), diff))
	}
	if len(b) == 0 {
		l.violate("config", "no-voter-left", fmt.Sprintf("leader %d appended config %d {%s} without any voter", n.id, i, canonConfig(c)))
	}
	// previous configuration committed?  (commit index after the step is an
	// upper bound of the commit index at the append; with one voter the new
	// entry commits in the same step, which is fine)
	if pred.Index > r.commitIndex {
		l.violate("config", "config-while-previous-uncommitted", fmt.Sprintf("leader %d appended config %d while config %d is not committed (commit %d)", n.id, i, pred.Index, r.commitIndex))
	}
	if r.commitIndex < r.ldr.startIndex {
		where := "leader"
		if p.state != Leader || p.term != r.term {
			where = "leader.init"
		}
		l.violate("config", "config-before-own-term-commit@"+where, fmt.Sprintf("leader %d (term %d, startIndex %d) appended config %d {%s} with commitIndex %d: no entry of its own term committed yet", n.id, r.term, r.ldr.startIndex, i, canonConfig(c), r.commitIndex))
	}
}

func (l *ledger) checkCommitted(n *simNode) {
	r := n.r
	var p nodeSnap
	if n.idx < len(l.prev) {
		p = l.prev[n.idx]
	}
	had := l.had[n.idx]
	becameLeader := r.state == Leader && (!p.up || p.inc != n.inc || p.state != Leader || p.term != r.term)
	idxs := make([]uint64, 0, len(l.committed))
	for i := range l.committed {
		idxs = append(idxs, i)
	}
	sort.Slice(idxs, func(a, b int) bool { return idxs[a] < idxs[b] })
	for _, i := range idxs {
		c := l.committed[i]
		holds := false
		if i <= r.snaps.index {
			holds = true // covered by the snapshot
		} else if e, ok := l.entryAt(n, i); ok && e.term == c.Term {
			holds = true
		}
		if holds {
			had[i] = true
		} else if had[i] {
			l.violate("commit", "committed-entry-lost", fmt.Sprintf("node %d no longer holds committed entry %d (%v): log (%d,%d], snapshot %d", n.id, i, c, r.log.PrevIndex(), r.lastLogIndex, r.snaps.index))
			delete(had, i)
		}
		// Leader Completeness binds the leaders of terms ABOVE the one in which the entry was committed (a node that
		// wins a stale term afterwards - votes granted before - cannot commit or overwrite anything)
		if becameLeader && !holds && r.term > l.commitTerm[i] {
			l.violate("commit", "leader-lacks-committed-entry", fmt.Sprintf("node %d became leader of term %d without committed entry %d (%v)", n.id, r.term, i, c))
		}
		// a node whose own commit index covers i must agree
		if i <= r.commitIndex && !holds {
			l.violate("commit", "commit-index-covers-different-entry", fmt.Sprintf("node %d: commitIndex %d covers index %d but it does not hold the committed entry %v", n.id, r.commitIndex, i, c))
		}
	}
}

// L-apply: the FSM contents equal the committed update payloads up to the applied index.
func (l *ledger) checkApplied(n *simNode) {
	r := n.r
	applied := r.fsm.index
	var want []string
	for i := uint64(1); i <= applied; i++ {
		c, ok := l.committed[i]
		if !ok {
			l.violate("apply", "applied-uncommitted", fmt.Sprintf("node %d: FSM applied index %d but index %d was never committed anywhere", n.id, applied, i))
			return
		}
		if c.Typ == entryUpdate {
			want = append(want, c.Hash)
		}
	}
	got := n.fsm.snapshotState()
	if strings.Join(got, ",") != strings.Join(want, ",") {
		l.violate("apply", "fsm-differs-from-committed-prefix", fmt.Sprintf("node %d: FSM at applied index %d contains [%s], committed updates up to there are [%s]", n.id, applied, strings.Join(got, ","), strings.Join(want, ",")))
	}
}

// L-info (C19)
func (l *ledger) checkInfo(n *simNode) {
	r := n.r
	cur := &infoRec{inc: n.inc, term: r.term, commit: r.commitIndex, applied: r.fsm.index, snapIdx: r.snaps.index}
	if old := l.info[n.idx]; old != nil && old.inc == n.inc {
		if cur.term < old.term {
			l.violate("info", "term-decreased", fmt.Sprintf("node %d: term %d -> %d", n.id, old.term, cur.term))
		}
		if cur.commit < old.commit {
			l.violate("info", "commit-decreased", fmt.Sprintf("node %d: commit index %d -> %d", n.id, old.commit, cur.commit))
		}
		if cur.applied < old.applied {
			l.violate("info", "applied-decreased", fmt.Sprintf("node %d: last applied %d -> %d", n.id, old.applied, cur.applied))
		}
		if cur.snapIdx < old.snapIdx {
			l.violate("info", "snapshot-index-decreased", fmt.Sprintf("node %d: snapshot index %d -> %d", n.id, old.snapIdx, cur.snapIdx))
		}
	}
	if old := l.info[n.idx]; old == nil || old.inc != n.inc || old.snapIdx != cur.snapIdx {
		if cur.snapIdx > 0 {
			l.checkSnapshot(n)
		}
	}
	l.info[n.idx] = cur
	first := r.log.PrevIndex() + 1
	if cur.applied > cur.commit {
		l.violate("info", "applied-beyond-commit", fmt.Sprintf("node %d: last applied %d > commit index %d", n.id, cur.applied, cur.commit))
	}
	if first-1 > cur.snapIdx {
		l.violate("info", "log-starts-after-snapshot", fmt.Sprintf("node %d: first log index %d, snapshot index %d", n.id, first, cur.snapIdx))
	}
	if cur.snapIdx > r.lastLogIndex {
		l.violate("info", "snapshot-beyond-log", fmt.Sprintf("node %d: snapshot index %d > last log index %d", n.id, cur.snapIdx, r.lastLogIndex))
	}
	// not when that configuration is known to be committed (some node's commit index has reached it and this node
	// holds the same entry): a follower that falls back to the predecessor of an overwritten configuration entry may not
	// have learnt the commit index yet, but a leader appends a configuration only after its predecessor is committed
	if r.configs.IsCommitted() && r.configs.Committed.Index > r.commitIndex && r.configs.Committed.Index > 1 && !l.knownCommitted(n, r.configs.Committed.Index) {
		l.violate("removed", "config-treated-as-committed-before-commit", fmt.Sprintf("node %d treats configuration %d {%s} as committed (and acts on it: step-down / shutdown of a demoted or removed node) while its commit index is %d", n.id, r.configs.Committed.Index, canonConfig(r.configs.Committed), r.commitIndex))
		l.violate("info", "config-marked-committed-beyond-commit-index", fmt.Sprintf("node %d treats config %d as committed but its commit index is %d", n.id, r.configs.Committed.Index, r.commitIndex))
	}
	if r.configs.Committed.Index > r.configs.Latest.Index {
		l.violate("info", "committed-config-newer-than-latest", fmt.Sprintf("node %d: committed config %d > latest %d", n.id, r.configs.Committed.Index, r.configs.Latest.Index))
	}
	// latest configuration == newest configuration entry in log or snapshot
	var newest uint64
	var newestCfg string
	scanned := true
	for i := r.lastLogIndex; i > r.log.PrevIndex(); i-- {
		e, ok := l.entryAt(n, i)
		if !ok {
			scanned = false
		}
		if ok && e.typ == entryConfig {
			var c Config
			if c.decode(e) == nil {
				newest, newestCfg = i, canonConfig(c)
			}
			break
		}
	}
	if newest == 0 && r.snaps.index > 0 {
		if want := l.newestConfigAtOrBelow(r.snaps.index); want != 0 && r.configs.Latest.Index < want {
			l.violate("label", "membership-older-than-snapshot-index", fmt.Sprintf("node %d: its log holds no config entry, snapshot index is %d, latest config is %d {%s} but config %d {%s} was committed at or below the snapshot index", n.id, r.snaps.index, r.configs.Latest.Index, canonConfig(r.configs.Latest), want, l.configs[want]))
		}
	}
	// the log holds no configuration entry at all: the configuration in force can only come from below the log
	// (snapshot / compacted prefix), never from an entry that was truncated away (revertConfig falling back to a
	// "committed" configuration that was in fact the removed entry)
	if newest == 0 && scanned && r.configs.Latest.Index > r.log.PrevIndex() && r.configs.Latest.Index > r.snaps.index {
		l.violate("config", "adopted-config-not-in-log", fmt.Sprintf("node %d operates on configuration %d {%s} but its log (%d..%d, snapshot %d) holds no configuration entry", n.id, r.configs.Latest.Index, canonConfig(r.configs.Latest), r.log.PrevIndex()+1, r.lastLogIndex, r.snaps.index))
	}
	if newest != 0 {
		if r.configs.Latest.Index != newest || canonConfig(r.configs.Latest) != newestCfg {
			l.violate("config", "adopted-config-not-in-log", fmt.Sprintf("node %d operates on configuration %d {%s} which is not the newest configuration entry of its log (%d {%s})", n.id, r.configs.Latest.Index, canonConfig(r.configs.Latest), newest, newestCfg))
			l.violate("info", "latest-config-not-newest-entry", fmt.Sprintf("node %d: latest config is %d {%s} but newest config entry in its log is %d {%s}", n.id, r.configs.Latest.Index, canonConfig(r.configs.Latest), newest, newestCfg))
		}
	}
}

// knownCommitted: entry i is committed according to the ledger and node n holds that very entry.
func (l *ledger) knownCommitted(n *simNode, i uint64) bool {
	old, ok := l.committed[i]
	if !ok {
		return false
	}
	rec, _, ok := l.recAt(n, i)
	return ok && rec == old
}

// newestConfigAtOrBelow returns the index of the newest committed
// configuration entry with index <= i (0 if unknown).
func (l *ledger) newestConfigAtOrBelow(i uint64) uint64 {
	var best uint64
	for idx := range l.configs {
		if idx <= i && idx > best {
			best = idx
		}
	}
	return best
}

// checkSnapshot validates a snapshot that became the node's latest (taken
// locally, installed, or found at restart): label (C12) and contents (C09).
func (l *ledger) checkSnapshot(n *simNode) {
	r := n.r
	l.stats.snapshots++
	meta, err := r.snaps.meta()
	if err != nil {
		l.violate("alive", "snapshot-meta-unreadable", fmt.Sprintf("node %d: %v", n.id, err))
		return
	}
	c, ok := l.committed[meta.index]
	if !ok {
		l.violate("snapshot", "snapshot-of-uncommitted-index", fmt.Sprintf("node %d stored a snapshot at index %d which was never committed", n.id, meta.index))
		return
	}
	if c.Term != meta.term {
		l.violate("label", "snapshot-term-wrong", fmt.Sprintf("node %d: snapshot at index %d is labelled term %d, the committed entry has term %d", n.id, meta.index, meta.term, c.Term))
	}
	if want := l.newestConfigAtOrBelow(meta.index); want != 0 && meta.config.Index < want {
		l.violate("label", "snapshot-labelled-with-older-config", fmt.Sprintf("node %d: snapshot at index %d is labelled with config %d {%s} but config %d {%s} is the membership in force at that index", n.id, meta.index, meta.config.Index, canonConfig(meta.config), want, l.configs[want]))
	} else if want != 0 && meta.config.Index == want && canonConfig(meta.config) != l.configs[want] {
		l.violate("label", "snapshot-config-differs", fmt.Sprintf("node %d: snapshot at index %d carries config %d {%s}, the committed config entry %d is {%s}", n.id, meta.index, meta.config.Index, canonConfig(meta.config), want, l.configs[want]))
	}
	// contents: exactly the committed updates up to the index
	snap, err := r.snaps.open()
	if err != nil {
		l.violate("alive", "snapshot-unopenable", fmt.Sprintf("node %d: %v", n.id, err))
		return
	}
	b, _ := ioutil.ReadAll(snap.file)
	snap.release()
	var got []string
	if len(bytes.TrimSpace(b)) > 0 {
		_ = json.Unmarshal(b, &got)
	}
	var want []string
	for i := uint64(1); i <= meta.index; i++ {
		if ce, ok := l.committed[i]; ok && ce.Typ == entryUpdate {
			want = append(want, ce.Hash)
		}
	}
	if strings.Join(got, ",") != strings.Join(want, ",") {
		l.violate("snapshot", "snapshot-contents-differ-from-committed-prefix", fmt.Sprintf("node %d: snapshot at index %d contains [%s], committed updates up to there are [%s]", n.id, meta.index, strings.Join(got, ","), strings.Join(want, ",")))
	}
}

// onInfoReport (C19): successive status reports of one running node never show term, commit
// index, last-applied index or snapshot index decreasing, and every report is ordered.
func (l *ledger) onInfoReport(n *simNode, in Info) {
	l.stats.infoReports++
	key := [2]int{n.idx, n.inc}
	if old, ok := l.reports[key]; ok {
		if in.Term < old.Term || in.Committed < old.Committed || in.LastApplied < old.LastApplied || in.SnapshotIndex < old.SnapshotIndex {
			l.violate("info", "status-report-regressed", fmt.Sprintf("node %d: GetInfo reported term/commit/applied/snapshot %d/%d/%d/%d after %d/%d/%d/%d", n.id, in.Term, in.Committed, in.LastApplied, in.SnapshotIndex, old.Term, old.Committed, old.LastApplied, old.SnapshotIndex))
		}
	}
	l.reports[key] = in
	if !(in.LastApplied <= in.Committed && in.Committed <= in.LastLogIndex) {
		l.violate("info", "status-report-unordered", fmt.Sprintf("node %d: GetInfo reported lastApplied %d, committed %d, lastLogIndex %d", n.id, in.LastApplied, in.Committed, in.LastLogIndex))
	}
	if !(in.FirstLogIndex-1 <= in.SnapshotIndex && in.SnapshotIndex <= in.LastLogIndex) {
		l.violate("info", "status-report-snapshot-unordered", fmt.Sprintf("node %d: GetInfo reported firstLogIndex %d, snapshotIndex %d, lastLogIndex %d", n.id, in.FirstLogIndex, in.SnapshotIndex, in.LastLogIndex))
	}
	if in.Configs.Committed.Index > in.Configs.Latest.Index {
		l.violate("info", "status-report-configs-unordered", fmt.Sprintf("node %d: GetInfo reported committed config %d > latest %d", n.id, in.Configs.Committed.Index, in.Configs.Latest.Index))
	}
}

// L-durable (C06): at the instant an index is first seen committed, every
// directory is copied ("all nodes crash now") and reopened.  The configuration
// in force at the commit is the newest configuration entry of the committing
// node's log at that moment; a step may append further entries after the
// commit, so every log length between the one before the step (but at least
// the committed index) and the current one is a candidate and a violation is
// reported only if no candidate explains the commit.
func (l *ledger) checkDurable(by *simNode, index, term uint64) {
	w := l.w
	r := by.r
	lo := index
	if by.idx < len(l.prev) {
		if p := l.prev[by.idx]; p.up && p.inc == by.inc && p.lastLogIndex > lo {
			lo = p.lastLogIndex
		}
	}
	// candidate configurations
	var cands []Config
	seenCfg := map[uint64]bool{}
	for L := lo; L <= r.lastLogIndex; L++ {
		var cfg Config
		found := false
		for j := L; j > r.log.PrevIndex(); j-- {
			if e, ok := l.entryAt(by, j); ok && e.typ == entryConfig {
				if cfg.decode(e) == nil {
					found = true
				}
				break
			}
		}
		if !found {
			if m, err := r.snaps.meta(); err == nil && m.config.Index > 0 {
				cfg, found = m.config, true
			}
		}
		if found && !seenCfg[cfg.Index] {
			seenCfg[cfg.Index] = true
			cands = append(cands, cfg)
		}
	}
	if len(cands) == 0 {
		cands = append(cands, r.configs.Latest)
	}
	// which nodes hold the entry durably
	holds := map[uint64]bool{}
	var detail []string
	for _, n := range w.nodes {
		img := w.copyDir(n.dir)
		st, err := openStorage(img, w.raftOptions())
		if err != nil {
			detail = append(detail, fmt.Sprintf("n%d:open-error(%v)", n.id, err))
			continue
		}
		ok2 := false
		if index <= st.snaps.index {
			ok2 = true
		} else if index <= st.lastLogIndex && index > st.log.PrevIndex() {
			e := &entry{}
			if st.getEntry(index, e) == nil && e.term == term {
				ok2 = true
			}
		}
		detail = append(detail, fmt.Sprintf("n%d:last=%d,has=%v", n.id, st.lastLogIndex, ok2))
		holds[n.id] = ok2
		_ = st.log.Close()
	}
	var worst string
	for _, cfg := range cands {
		voters, have := 0, 0
		for id, nd := range cfg.Nodes {
			if nd.Voter {
				voters++
				if holds[id] {
					have++
				}
			}
		}
		if voters == 0 || have >= voters/2+1 {
			return // explained
		}
		worst = fmt.Sprintf("%dof%d under config %d {%s}", have, voters, cfg.Index, canonConfig(cfg))
	}
	parts := strings.SplitN(worst, " ", 2)
	l.violate("durable", "committed-not-durable-on-majority:"+parts[0], fmt.Sprintf("index %d (term %d) reported committed by node %d is durable on %s [%s]", index, term, by.id, worst, strings.Join(detail, " ")))
}

// C16: what a transfer designates and what its result means.
func (l *ledger) checkTransfer() {
	w := l.w
	// every timeout-now request in flight was sent to a voter that holds the leader's whole log
	for _, c := range w.liveConns() {
		w.mu.Lock()
		closed := c.closed
		w.mu.Unlock()
		if closed || c.tnChecked {
			continue
		}
		p := c.peekRequest()
		if p == nil || !p.complete || p.typ != rpcTimeoutNow {
			continue
		}
		c.tnChecked = true
		src := w.nodes[c.cli]
		if !src.up || src.r.state != Leader {
			continue
		}
		r := src.r
		target := uint64(c.srv + 1)
		l.claimLeader(p.term, src.id, "timeoutNow")
		if !r.configs.Latest.isVoter(target) {
			l.violate("transfer", "timeoutnow-to-nonvoter", fmt.Sprintf("leader %d sent timeout-now to node %d which is not a voter in {%s}", src.id, target, canonConfig(r.configs.Latest)))
		}
		if repl := r.ldr.repls[target]; repl == nil || repl.status.matchIndex != r.lastLogIndex {
			var m uint64
			if repl != nil {
				m = repl.status.matchIndex
			}
			l.violate("transfer", "timeoutnow-to-lagging-node", fmt.Sprintf("leader %d (last log index %d) sent timeout-now to node %d whose match index is %d", src.id, r.lastLogIndex, target, m))
		}
	}
	// "either completes ... or fails with an error": every transfer request is answered, once; in particular none
	// is still open once the node it was submitted to no longer leads (release answers it)
	simTaskMu.Lock()
	for _, st := range w.tasks {
		if st.kind != "transfer" || st.ghost {
			continue
		}
		if st.replies > 1 {
			distinct := map[string]bool{}
			for _, r := range st.results {
				distinct[r] = true
			}
			if len(distinct) > 1 {
				l.violate("transfer", "request-answered-twice", fmt.Sprintf("transfer request %d (%s) on node %d got %d answers: %v", st.id, st.payload, st.node+1, st.replies, st.results))
			}
		}
		n := w.nodes[st.node]
		if st.replies == 0 && st.ret < 0 && n.up && n.inc == st.inc && n.r.state != Leader {
			l.violate("transfer", "request-unanswered-after-stepdown", fmt.Sprintf("transfer request %d (%s) submitted to node %d is still unanswered although that node is %v now", st.id, st.payload, st.node+1, n.r.state))
		}
	}
	simTaskMu.Unlock()
	// a transfer that reports success: the old leader has stepped down in favour of a higher term
	for _, st := range w.tasks {
		if st.kind != "transfer" || st.ret != w.clock || st.checked {
			continue
		}
		st.checked = true
		if st.inner.result != nil {
			continue
		}
		n := w.nodes[st.node]
		if n.inc != st.inc || n.r == nil {
			continue
		}
		r := n.r // (also of a node that has shut down meanwhile: its fields are what it last had)
		if (n.up && r.state == Leader) || r.term <= st.termAtInvoke {
			l.violate("transfer", "success-without-stepdown", fmt.Sprintf("TransferLeadership on node %d (term %d at request) returned success but the node is %v in term %d", n.id, st.termAtInvoke, r.state, r.term))
		}
	}
}

// L-alive: tasks complete at most once
func (l *ledger) checkTasks() {
	simTaskMu.Lock()
	defer simTaskMu.Unlock()
	for _, st := range l.w.tasks {
		if st.replies > 1 {
			distinct := map[string]bool{}
			for _, r := range st.results {
				distinct[r] = true
			}
			if len(distinct) > 1 {
				l.violate("alive", "task-replied-twice:"+st.kind, fmt.Sprintf("task %d (%s %s) on node %d got %d replies: %v", st.id, st.kind, st.payload, st.node+1, st.replies, st.results))
			}
		}
	}
}

// digest of the parts of the ledger that future verdicts depend on
func (l *ledger) digest() string {
	var sb strings.Builder
	terms := make([]uint64, 0, len(l.leaderOf))
	for t := range l.leaderOf {
		terms = append(terms, t)
	}
	sort.Slice(terms, func(i, j int) bool { return terms[i] < terms[j] })
	for _, t := range terms {
		fmt.Fprintf(&sb, "L%d=%d;", t, l.leaderOf[t])
	}
	idxs := make([]uint64, 0, len(l.committed))
	for i := range l.committed {
		idxs = append(idxs, i)
	}
	sort.Slice(idxs, func(i, j int) bool { return idxs[i] < idxs[j] })
	for _, i := range idxs {
		fmt.Fprintf(&sb, "C%d=%v@%d;", i, l.committed[i], l.commitTerm[i])
	}
	vk := make([][2]uint64, 0, len(l.votes))
	for k := range l.votes {
		vk = append(vk, k)
	}
	sort.Slice(vk, func(i, j int) bool {
		if vk[i][0] != vk[j][0] {
			return vk[i][0] < vk[j][0]
		}
		return vk[i][1] < vk[j][1]
	})
	for _, k := range vk {
		fmt.Fprintf(&sb, "V%d.%d=%d;", k[0], k[1], l.votes[k])
	}
	for i := 0; i < len(l.w.nodes); i++ {
		if cs := l.commitSeen[i]; cs > 0 {
			fmt.Fprintf(&sb, "CS%d=%d;", i, cs)
		}
	}
	// completed catch-up rounds not yet used by a promotion
	rk := make([][3]uint64, 0, len(l.roundDone))
	for k := range l.roundDone {
		rk = append(rk, k)
	}
	sort.Slice(rk, func(a, b int) bool {
		for x := 0; x < 3; x++ {
			if rk[a][x] != rk[b][x] {
				return rk[a][x] < rk[b][x]
			}
		}
		return false
	})
	for _, k := range rk {
		fmt.Fprintf(&sb, "RD%d.%d.%d=%d;", k[0], k[1], k[2], l.roundDone[k])
	}
	return sb.String()
}
