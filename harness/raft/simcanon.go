//go:build verif
// +build verif

package raft

// Canonical form of a quiescent world (dedup key of the explicit-state
// search).  It lists every field a handler or an oracle reads and drops what
// none reads: wall-clock values, byte order of encoded configurations,
// connection sequence numbers.

import (
	"crypto/sha256"
	"encoding/hex"
	"fmt"
	"os"
	"sort"
	"strings"
)

func hashBytes(b []byte) string {
	if len(b) == 0 {
		return "-"
	}
	h := sha256.Sum256(b)
	return hex.EncodeToString(h[:6])
}

func (w *world) canon(cnt simCounters) string {
	var sb strings.Builder
	for _, n := range w.nodes {
		fmt.Fprintf(&sb, "N%d:", n.id)
		if !n.up {
			fmt.Fprintf(&sb, "down(%s dead%v);\n", w.canonDisk(n), n.dead)
			continue
		}
		r := n.r
		fmt.Fprintf(&sb, "%c t%d v%d l%d c%d ", byte(r.state), r.term, r.votedFor, r.leader, r.commitIndex)
		fmt.Fprintf(&sb, "log(%d:", r.log.PrevIndex())
		for i := r.log.PrevIndex() + 1; i <= r.lastLogIndex; i++ {
			rec, _, ok := w.led.recAt(n, i)
			if !ok {
				fmt.Fprintf(&sb, "?%d,", i)
				continue
			}
			fmt.Fprintf(&sb, "%v,", rec)
		}
		fmt.Fprintf(&sb, ")last%d/%d ", r.lastLogIndex, r.lastLogTerm)
		fmt.Fprintf(&sb, "snap%d/%d ", r.snaps.index, r.snaps.term)
		if r.snaps.index > 0 {
			if m, err := r.snaps.meta(); err == nil {
				fmt.Fprintf(&sb, "[%d{%s}] ", m.config.Index, canonConfig(m.config))
			}
		}
		fmt.Fprintf(&sb, "cfg%d{%s}/%d{%s} ", r.configs.Latest.Index, canonConfig(r.configs.Latest), r.configs.Committed.Index, canonConfig(r.configs.Committed))
		fmt.Fprintf(&sb, "fsm%d/%d q%d ", r.fsm.index, r.fsm.term, len(r.fsm.ch))
		fmt.Fprintf(&sb, "tm%v ", r.timer.active)
		if r.snapTakenCh != nil {
			fmt.Fprintf(&sb, "snapping(%s %s) ", n.snapAt, n.snapArgs)
		}
		switch r.state {
		case Candidate:
			fmt.Fprintf(&sb, "cand(need%d xfer%v) ", r.cnd.votesNeeded, r.cnd.transfer)
		case Leader:
			l := r.ldr
			fmt.Fprintf(&sb, "ldr(start%d nv%d voter%v rm%d ", l.startIndex, l.numVoters, l.node.Voter, l.removeLTE)
			cnt := 0
			for ne := l.neHead; ne != nil; ne = ne.next {
				fmt.Fprintf(&sb, "ne%d/%d,", ne.typ, ne.index)
				cnt++
			}
			fmt.Fprintf(&sb, " ws%d ", len(l.waitStable))
			t := &l.transfer
			if t.inProgress() {
				fmt.Fprintf(&sb, "xfer(t%d tgt%d rc%v nt%v) ", t.term, t.target, t.respCh != nil, t.newTermTimer.active)
			}
			ids := make([]uint64, 0, len(l.repls))
			for id := range l.repls {
				ids = append(ids, id)
			}
			sort.Slice(ids, func(i, j int) bool { return ids[i] < ids[j] })
			for _, id := range ids {
				st := &l.repls[id].status
				fmt.Fprintf(&sb, "f%d(m%d nc%v rm%d v%v a%d", id, st.matchIndex, !st.noContact.IsZero(), st.removeLTE, st.node.Voter, st.node.Action)
				if st.round != nil {
					fmt.Fprintf(&sb, " rd%d/%d/%v", st.round.Ordinal, st.round.LastIndex, st.round.finished())
				}
				sb.WriteString(") ")
			}
			sb.WriteString(") ")
		}
		if r.ldr != nil && (r.state != Leader || !r.ldr.transfer.inProgress()) {
			// left-overs of a finished transfer (none in correct code): the raft loop keeps selecting on them
			if t := &r.ldr.transfer; t.respCh != nil || t.timer.active || t.newTermTimer.active {
				fmt.Fprintf(&sb, "xres(rc%v tt%v nt%v) ", t.respCh != nil, t.timer.active, t.newTermTimer.active)
			}
		}
		if r.state == Follower {
			// electionAborted lives in the follower struct local to stateLoop; its
			// only effect (timer re-arm) is visible through timer.active
		}
		// replication drivers
		for _, id := range sortedDriverIDs(n.drivers) {
			d := n.drivers[id]
			if !d.live() {
				if k := len(d.updCh); k > 0 && r.state == Leader && r.ldr.startIndex == d.repl.ldrStartIndex {
					fmt.Fprintf(&sb, "d%d(ended", id)
					for i := 0; i < k; i++ {
						u := <-d.updCh
						d.updCh <- u
						fmt.Fprintf(&sb, " up(%s)", canonUpdate(u.update))
					}
					sb.WriteString(") ")
				}
				continue
			}
			rp := d.repl
			lv := "nil"
			if rp.log != nil {
				lv = fmt.Sprintf("%d:%d", rp.log.PrevIndex(), rp.log.LastIndex())
			}
			fmt.Fprintf(&sb, "d%d(ph%d nx%d m%d ll%d lc%d lv%s out%v fl%v c%v dr%v pe%v h%v nv%v", id, d.phase, rp.nextIndex, rp.matchIndex, rp.ldrLastIndex,
				d.req.ldrCommitIndex, lv, d.outstanding, d.failures > 0, d.c != nil, d.draining, d.pipeEnd, d.helper != nil, rp.node.Voter)
			if len(rp.leaderUpdateCh) > 0 {
				u := <-rp.leaderUpdateCh
				rp.leaderUpdateCh <- u
				if u.log == nil {
					fmt.Fprintf(&sb, " lu(nilview c%d cfg%v)", u.commitIndex, u.config != nil)
				} else {
					fmt.Fprintf(&sb, " lu(%d:%d c%d cfg%v)", u.log.PrevIndex(), u.log.LastIndex(), u.commitIndex, u.config != nil)
				}
			}
			if k := len(d.updCh); k > 0 {
				for i := 0; i < k; i++ {
					u := <-d.updCh
					d.updCh <- u
					fmt.Fprintf(&sb, " up(%s)", canonUpdate(u.update))
				}
			}
			sb.WriteString(") ")
		}
		sb.WriteString(";\n")
	}
	// connections
	var cs []string
	w.mu.Lock()
	for _, c := range w.conns {
		pend := c.pendingBytesLocked()
		dead := c.closed && (!w.opt.Disconnects || c.discSent || c.identNid == 0 || !w.nodes[c.srv].up)
		if dead && (len(pend) == 0 || !w.nodes[c.srv].up) {
			continue
		}
		cs = append(cs, fmt.Sprintf("%d>%d#%03d cl%v p%s h%s r%s id%d ds%v", c.cli, c.srv, c.seq, c.closed, canonPending(pend), hashBytes(c.held.Bytes()), hashBytes(c.s2c.Bytes()), c.identNid, c.discSent))
	}
	var bl []string
	for k := range w.blocked {
		bl = append(bl, fmt.Sprintf("%d|%d", k[0], k[1]))
	}
	w.mu.Unlock()
	// drop the sequence numbers but keep the per-pair order
	sort.Strings(cs)
	for _, s := range cs {
		i := strings.IndexByte(s, '#')
		sb.WriteString(s[:i] + s[i+4:] + ";")
	}
	sort.Strings(bl)
	fmt.Fprintf(&sb, "\nblocked%v\n", bl)
	// tasks
	for _, st := range w.tasks {
		res := "pending"
		if st.ret >= 0 {
			res = simResultString(st.inner.result)
		}
		fmt.Fprintf(&sb, "T(%s n%d %s %s);", st.kind, st.node, st.payload, res)
	}
	fmt.Fprintf(&sb, "\ncnt%+v\n", cnt)
	sb.WriteString(w.led.digest())
	return sb.String()
}

// canonPending describes all requests in flight on a connection.
func canonPending(b []byte) string {
	if len(b) == 0 {
		return "-"
	}
	var sb strings.Builder
	for len(b) > 0 {
		p := parseRequest(b)
		if p == nil || !p.complete || p.size == 0 {
			sb.WriteString("partial:" + hashBytes(b))
			break
		}
		sb.WriteString("[" + p.canon + "]")
		b = b[p.size:]
	}
	return sb.String()
}

func canonUpdate(u interface{}) string {
	switch u := u.(type) {
	case matchIndex:
		return fmt.Sprintf("match%d", u.val)
	case removeLTE:
		return fmt.Sprintf("rm%d", u.val)
	case noContact:
		return fmt.Sprintf("nc%v", !u.time.IsZero())
	case newTerm:
		return fmt.Sprintf("term%d", u.val)
	case error:
		return "err"
	}
	return fmt.Sprintf("%T", u)
}

// canonDisk summarises the storage of a node that is down (what a restart
// will find).
func (w *world) canonDisk(n *simNode) string {
	// a copy is opened: openStorage repairs what it finds (log ending below the snapshot) and Close flushes - looking
	// at the state must not change what the restart will find
	img := w.copyDir(n.dir)
	defer os.RemoveAll(img)
	st, err := openStorage(img, w.raftOptions())
	if err != nil {
		return "unopenable:" + simErrClass(err)
	}
	defer st.log.Close()
	var sb strings.Builder
	fmt.Fprintf(&sb, "t%d v%d last%d log(%d:", st.term, st.votedFor, st.lastLogIndex, st.log.PrevIndex())
	for i := st.log.PrevIndex() + 1; i <= st.log.LastIndex(); i++ {
		e := &entry{}
		if err := st.getEntry(i, e); err != nil {
			fmt.Fprintf(&sb, "?%d,", i)
			continue
		}
		fmt.Fprintf(&sb, "%v,", recOf(e))
	}
	fmt.Fprintf(&sb, ") snap%d/%d", st.snaps.index, st.snaps.term)
	return sb.String()
}

func canonHash(s string) string {
	h := sha256.Sum256([]byte(s))
	return hex.EncodeToString(h[:16])
}
