//go:build verif
// +build verif

package raft

// C20 part (i): the identity handshake matrix.
//
// Main matrix ("lib"): real connPool.getConn/doRPC on the dialer side, real
// Serve (server.serve/handleConn, stateLoop/replyRPC/onRequest) on the
// listener side, over the in-memory network of enum_ident_net.go:
//   dialer belief (cid,nid) in {1,2}x{1,2}  x  listener identity in {1,2}x{1,2}
//   x first request after the handshake in {vote, append+2 entries,
//   installSnapshot, timeoutNow}  x  {fresh, pooled reuse, peer replaced by
//   another node listening on the same address}.
// Adversarial halves, each side against a stand-in for the other:
//   "raw":   a dialer that ignores the handshake result (or pipelines the
//            request behind the handshake) against the real listener;
//   "stub":  the real getConn against a stand-in listener answering the
//            handshake with every rpcResult value / garbage / silence;
//   "timer": the real replyRPC called directly for identity requests with
//            every (leader, src) combination: does a handshake that names
//            another identity count as contact from the leader?

import (
	"bufio"
	"bytes"
	"fmt"
	"os"
	"sync"
	"time"
)

type c20ReqKind int

const (
	c20Vote c20ReqKind = iota
	c20Append
	c20Snap
	c20TimeoutNow
)

var c20ReqKinds = []c20ReqKind{c20Vote, c20Append, c20Snap, c20TimeoutNow}

func (k c20ReqKind) String() string {
	return [...]string{"vote", "append", "installSnap", "timeoutNow"}[k]
}

const (
	c20HandshakeLen  = 1 + 8 + 8 + 8 + 8 // type byte + term + src + cid + nid
	c20IdentRespLen  = 8 + 1             // term + result
	c20ReqTerm       = 5
	c20WarmTerm      = 3
	c20SnapData      = "c20-snapshot-payload"
	c20ListenAddr    = "peer"
	c20SnapLastIndex = 4
	c20SnapLastTerm  = 3
)

var c20Idents = []c20Ident{{1, 1}, {1, 2}, {2, 1}, {2, 2}}

func c20MismatchClass(belief, actual c20Ident) string {
	switch {
	case belief == actual:
		return "match"
	case belief.CID != actual.CID && belief.NID != actual.NID:
		return "cid+nid-differ"
	case belief.CID != actual.CID:
		return "cid-differs"
	default:
		return "nid-differs"
	}
}

// c20HSCase is one case of the matrix (also the replay format).
type c20HSCase struct {
	Part   string     `json:"part"` // lib | raw | stub | timer | nohandshake
	Belief c20Ident   `json:"belief"`
	Actual c20Ident   `json:"actual"`
	Kind   c20ReqKind `json:"kind"`
	Mode   string     `json:"mode"`
	// stub: the handshake answer; timer: leader and src
	StubResult int    `json:"stub_result,omitempty"`
	Leader     uint64 `json:"leader,omitempty"`
	Src        uint64 `json:"src,omitempty"`
}

func (c c20HSCase) String() string {
	switch c.Part {
	case "stub":
		return fmt.Sprintf("stub belief=%v answer=%s req=%v", c.Belief, c.Mode, c.Kind)
	case "timer":
		return fmt.Sprintf("timer belief=%v actual=%v leader=%d src=%d", c.Belief, c.Actual, c.Leader, c.Src)
	}
	return fmt.Sprintf("%s belief=%v actual=%v req=%v mode=%s", c.Part, c.Belief, c.Actual, c.Kind, c.Mode)
}

type c20Attempt struct {
	Err    string `json:"err,omitempty"`
	ErrCls string `json:"err_class"`
	Result int    `json:"result"`
}

type c20HSResult struct {
	Case      c20HSCase     `json:"case"`
	Attempts  []c20Attempt  `json:"attempts"`
	Before    c20State      `json:"before"`
	After     c20State      `json:"after"`
	Final     c20State      `json:"final"`
	Conns     []c20ConnStat `json:"conns"`
	Processed int           `json:"processed"` // target requests answered with a non-identity response by the listener under test
	Warm      int           `json:"warm_processed"`
	Reused    bool          `json:"pooled_conn_reused,omitempty"`
	Reset     bool          `json:"reset_timer,omitempty"`
	Fails     []string      `json:"fails,omitempty"` // oracle failures: "<key>\x00<desc>"
	Harness   string        `json:"harness_error,omitempty"`
}

func (r *c20HSResult) fail(key, format string, a ...interface{}) {
	r.Fails = append(r.Fails, key+"\x00"+fmt.Sprintf(format, a...))
}

func c20ErrClass(err error) string {
	switch err.(type) {
	case nil:
		return "nil"
	case IdentityError:
		return "IdentityError"
	}
	return "other"
}

// c20Send sends the request of the given kind the way the library does:
// vote / timeoutNow through connPool.doRPC (candidate.go, transfer.go),
// append / installSnapshot through getConn + conn.writeReq + raw payload +
// conn.readResp (replication.go).
func c20Send(pool *connPool, kind c20ReqKind, term, src uint64, cfg Config) (rpcResult, error) {
	deadline := time.Now().Add(5 * time.Second)
	switch kind {
	case c20Vote:
		resp := &voteResp{}
		err := pool.doRPC(&voteReq{req: req{term, src}, lastLogIndex: 1, lastLogTerm: 1}, resp, deadline)
		return resp.result, err
	case c20TimeoutNow:
		resp := &timeoutNowResp{}
		err := pool.doRPC(&timeoutNowReq{req: req{term, src}}, resp, deadline)
		return resp.result, err
	}
	c, err := pool.getConn(deadline)
	if err != nil {
		return 0, err
	}
	result, err := c20SendOn(c, kind, term, src, cfg, deadline)
	if err != nil {
		_ = c.rwc.Close()
		return result, err
	}
	pool.returnConn(c)
	return result, nil
}

func c20Payload(kind c20ReqKind, term, src uint64, cfg Config) (request, []byte, response) {
	switch kind {
	case c20Vote:
		return &voteReq{req: req{term, src}, lastLogIndex: 1, lastLogTerm: 1}, nil, &voteResp{}
	case c20TimeoutNow:
		return &timeoutNowReq{req: req{term, src}}, nil, &timeoutNowResp{}
	case c20Append:
		var b bytes.Buffer
		_ = (&entry{index: 2, term: term, typ: entryUpdate, data: []byte("foreign-x")}).encode(&b)
		_ = (&entry{index: 3, term: term, typ: entryUpdate, data: []byte("foreign-y")}).encode(&b)
		return &appendReq{req: req{term, src}, prevLogIndex: 1, prevLogTerm: 1, ldrCommitIndex: 0, numEntries: 2}, b.Bytes(), &appendResp{}
	case c20Snap:
		c := cfg.clone()
		c.Index, c.Term = 1, 1
		return &installSnapReq{req: req{term, src}, lastIndex: c20SnapLastIndex, lastTerm: c20SnapLastTerm, lastConfig: c, size: int64(len(c20SnapData))}, []byte(c20SnapData), &installSnapResp{}
	}
	panic("c20: bad kind")
}

func c20SendOn(c *conn, kind c20ReqKind, term, src uint64, cfg Config, deadline time.Time) (rpcResult, error) {
	rq, payload, resp := c20Payload(kind, term, src, cfg)
	if err := c.writeReq(rq, deadline); err != nil {
		return 0, err
	}
	if len(payload) > 0 {
		if _, err := c.rwc.Write(payload); err != nil {
			return 0, err
		}
	}
	if err := c.readResp(resp, deadline); err != nil {
		return 0, err
	}
	return resp.getResult(), nil
}

func c20HSConfig() Config { return c20Config(map[uint64]string{1: "n1", 2: "n2"}) }

func c20NewPool(nw *c20Net, belief c20Ident, src uint64, addr string) *connPool {
	return &connPool{
		src: src, cid: belief.CID, nid: belief.NID,
		resolver: &resolver{addrs: map[uint64]string{belief.NID: addr}, logger: nopLogger{}, alerts: nopAlerts{}},
		dialFn:   nw.dialer("dialer"),
		max:      1,
	}
}

// c20Expect is the 30-line reference: the state a listener must have after
// processing the one request (on top of `before`).
func c20Expect(before c20State, kind c20ReqKind, term, src, self uint64) c20State {
	s := before
	switch kind {
	case c20Vote:
		s.Term, s.VotedFor, s.Role = term, src, "follower"
	case c20Append:
		s.Term, s.VotedFor, s.Leader, s.Role = term, 0, src, "follower"
		s.LastIndex, s.LastTerm = 3, term
	case c20Snap:
		s.Term, s.VotedFor, s.Leader, s.Role = term, 0, src, "follower"
		s.SnapIndex, s.SnapTerm = c20SnapLastIndex, c20SnapLastTerm
		s.LastIndex, s.LastTerm, s.Commit = c20SnapLastIndex, c20SnapLastTerm, c20SnapLastIndex
	case c20TimeoutNow:
		s.Term, s.VotedFor, s.Leader, s.Role = before.Term+1, self, 0, "candidate"
	}
	return s
}

func c20CoreEqual(a, b c20State) bool {
	a.Log, b.Log, a.FSM, b.FSM, a.CfgIndex, b.CfgIndex = "", "", "", "", 0, 0
	return a == b
}

// c20ParseHandshake decodes the identity request at the head of a client
// byte stream.
func c20ParseHandshake(head []byte) (src uint64, id c20Ident, ok bool) {
	if len(head) < c20HandshakeLen || rpcType(head[0]) != rpcIdentity {
		return 0, c20Ident{}, false
	}
	src = byteOrder.Uint64(head[9:])
	id.CID = byteOrder.Uint64(head[17:])
	id.NID = byteOrder.Uint64(head[25:])
	return src, id, true
}

// ---------------------------------------------------------------- lib / raw / nohandshake

func c20RunHS(cs c20HSCase) (res *c20HSResult) {
	res = &c20HSResult{Case: cs}
	root := vkScratch("c20hs")
	defer func() { _ = c20RemoveAll(root) }()
	nw := c20NewNet()
	cfg := c20HSConfig()
	opt := c20Options(time.Hour)
	src := 3 - cs.Belief.NID // the dialer is the other node of its own cluster
	harness := func(format string, a ...interface{}) *c20HSResult {
		res.Harness = fmt.Sprintf(format, a...)
		return res
	}
	var nodes []*c20Node
	defer func() {
		for _, n := range nodes {
			if err := n.stop(); err != nil && res.Harness == "" {
				res.Harness = "stop: " + err.Error()
			}
		}
	}()

	pool := c20NewPool(nw, cs.Belief, src, c20ListenAddr)
	defer pool.closeAll()
	attempt := func(kind c20ReqKind, term uint64) c20Attempt {
		result, err := c20Send(pool, kind, term, src, cfg)
		a := c20Attempt{ErrCls: c20ErrClass(err), Result: int(result)}
		if err != nil {
			a.Err = err.Error()
		}
		return a
	}

	var L *c20Node
	var err error
	if cs.Part == "lib" && cs.Mode == "replaced" {
		// the dialer first talks to a node that IS what it believes, at the same address
		L0, err := c20StartNode(nw, root+"/l0", cs.Belief, cfg, c20ListenAddr, "L0"+cs.Belief.String(), opt)
		if err != nil {
			return harness("start L0: %v", err)
		}
		nodes = append(nodes, L0)
		w := attempt(c20Vote, c20WarmTerm)
		if w.ErrCls != "nil" || rpcResult(w.Result) != success {
			return harness("warm-up against the matching node failed: %+v", w)
		}
		res.Warm++
		if err := L0.stop(); err != nil {
			return harness("stop L0: %v", err)
		}
	}
	L, err = c20StartNode(nw, root+"/l", cs.Actual, cfg, c20ListenAddr, "L"+cs.Actual.String(), opt)
	if err != nil {
		return harness("start L: %v", err)
	}
	nodes = append(nodes, L)
	if res.Before, err = L.inspectState(); err != nil {
		return harness("inspect: %v", err)
	}
	match := cs.Belief == cs.Actual
	expectBase := res.Before

	switch cs.Part {
	case "lib":
		switch cs.Mode {
		case "fresh":
			res.Attempts = append(res.Attempts, attempt(cs.Kind, c20ReqTerm))
		case "reuse":
			w := attempt(c20Vote, c20WarmTerm)
			res.Attempts = append(res.Attempts, w)
			if w.ErrCls == "nil" && rpcResult(w.Result) == success {
				res.Warm++
				if expectBase, err = L.inspectState(); err != nil {
					return harness("inspect: %v", err)
				}
			}
			d0 := nw.numDialsFrom("dialer")
			res.Attempts = append(res.Attempts, attempt(cs.Kind, c20ReqTerm))
			res.Reused = nw.numDialsFrom("dialer") == d0
		case "replaced":
			// like replication.runLoop: on error drop the connection and try again
			for i := 0; i < 3; i++ {
				a := attempt(cs.Kind, c20ReqTerm)
				res.Attempts = append(res.Attempts, a)
				if a.ErrCls != "other" {
					break
				}
			}
		}
	case "raw", "nohandshake":
		a, rc := c20RawDial(nw, cs, src, cfg)
		if rc != nil {
			defer rc.rwc.Close() // after the inspection: closing tells the listener that src disconnected
		}
		res.Attempts = append(res.Attempts, a)
	}

	if res.After, err = L.inspectState(); err != nil {
		return harness("inspect: %v", err)
	}
	if err := L.stop(); err != nil {
		return harness("stop L: %v", err)
	}
	res.Final = c20ReadState(L.r, L.fsm)
	res.Conns = nw.stats()

	// ---- oracles -----------------------------------------------------------
	cls := c20MismatchClass(cs.Belief, cs.Actual)
	last := res.Attempts[len(res.Attempts)-1]
	// responses the listener under test wrote beyond the identity reply
	for _, st := range res.Conns {
		if st.Owner != L.tag {
			continue
		}
		extra := st.SrvWritten
		if cs.Part != "nohandshake" {
			extra -= c20IdentRespLen
		}
		if extra > 0 && (!match || cs.Part == "nohandshake") {
			res.Processed++
		}
	}
	if match && cs.Part != "nohandshake" && last.ErrCls == "nil" && rpcResult(last.Result) == success {
		res.Processed = 1
	}
	unchanged := res.Before == res.After && c20CoreEqual(res.Before, res.Final) && res.Before.Log == res.Final.Log && res.Before.FSM == res.Final.FSM
	if cs.Part == "nohandshake" {
		return res
	}
	if !match {
		// (a) a listener whose identity differs from the one named in the handshake processes nothing
		if !unchanged || res.Processed != 0 {
			res.fail("foreign-request-processed:"+cs.Part+","+cls+","+cs.Kind.String(),
				"listener %v processed a %v request on a connection whose handshake named %v (%s): before {%v} after {%v} final {%v}, responses beyond the identity reply: %d",
				cs.Actual, cs.Kind, cs.Belief, cs.Mode, res.Before, res.After, res.Final, res.Processed)
		}
		if cs.Part == "lib" {
			// (b) the dialer gets IdentityError and writes nothing but the handshake
			if last.ErrCls != "IdentityError" {
				res.fail("dialer-no-identity-error:"+cls, "dialer believing %v reached %v and got %q (class %s), want IdentityError", cs.Belief, cs.Actual, last.Err, last.ErrCls)
			} else if want := (IdentityError{cs.Belief.CID, cs.Belief.NID, c20ListenAddr}).Error(); last.Err != want {
				res.fail("dialer-identity-error-fields:"+cls, "IdentityError text %q, want %q", last.Err, want)
			}
			for _, st := range res.Conns {
				if st.Owner != L.tag {
					continue
				}
				if st.CliWritten != c20HandshakeLen {
					res.fail("dialer-wrote-after-failed-handshake:"+cls+","+cs.Kind.String(),
						"dialer believing %v wrote %d bytes (handshake is %d) on connection #%d to %v whose handshake failed (%s)",
						cs.Belief, st.CliWritten, c20HandshakeLen, st.Seq, cs.Actual, cs.Mode)
				}
				if !st.CliClosed {
					res.fail("dialer-kept-mismatched-conn:"+cls, "dialer did not close connection #%d after the failed handshake", st.Seq)
				}
			}
		}
		for _, st := range res.Conns {
			if st.Owner == L.tag && !st.SrvClosed {
				res.fail("listener-kept-mismatched-conn:"+cls, "listener %v did not close connection #%d after replying identityMismatch", cs.Actual, st.Seq)
			}
		}
		return res
	}
	// (c) vacuity guard: with matching identities the request IS processed
	want := c20Expect(expectBase, cs.Kind, c20ReqTerm, src, cs.Actual.NID)
	if last.ErrCls != "nil" || rpcResult(last.Result) != success || res.Processed == 0 {
		res.fail("matching-request-not-processed:"+cs.Part+","+cs.Kind.String(), "matching identities %v, %v via %s: attempt %+v, processed=%d", cs.Belief, cs.Kind, cs.Mode, last, res.Processed)
	} else if !c20CoreEqual(res.After, want) {
		res.fail("matching-request-wrong-effect:"+cs.Part+","+cs.Kind.String(), "matching identities %v, %v via %s: state {%v}, reference {%v}", cs.Belief, cs.Kind, cs.Mode, res.After, want)
	}
	if cs.Part == "lib" && cs.Mode == "reuse" && !res.Reused {
		res.fail("pooled-conn-not-reused", "the pool dialled again although a checked connection was pooled (%v)", cs)
	}
	return res
}

// c20RawDial is a dialer that does NOT behave like the library after the
// handshake: mode "ignore-reply" reads the identity reply and sends the
// request whatever it says; mode "pipelined" writes handshake and request in
// one go before reading anything; part "nohandshake" sends the request only.
func c20RawDial(nw *c20Net, cs c20HSCase, src uint64, cfg Config) (c20Attempt, *conn) {
	deadline := time.Now().Add(5 * time.Second)
	c, err := dial(nw.dialer("dialer"), c20ListenAddr, time.Second)
	if err != nil {
		return c20Attempt{ErrCls: "other", Err: err.Error()}, nil
	}
	idReq := &identityReq{req: req{src: src}, cid: cs.Belief.CID, nid: cs.Belief.NID}
	idResp := &identityResp{}
	rq, payload, resp := c20Payload(cs.Kind, c20ReqTerm, src, cfg)
	fin := func(err error) (c20Attempt, *conn) {
		a := c20Attempt{ErrCls: c20ErrClass(err), Result: int(resp.getResult())}
		if err != nil {
			a.Err = err.Error()
		}
		return a, c
	}
	switch {
	case cs.Part == "nohandshake":
	case cs.Mode == "pipelined":
		var b bytes.Buffer
		_ = writeUint8(&b, uint8(rpcIdentity))
		_ = idReq.encode(&b)
		_ = writeUint8(&b, uint8(rq.rpcType()))
		_ = rq.encode(&b)
		b.Write(payload)
		if _, err := c.rwc.Write(b.Bytes()); err != nil {
			return fin(err)
		}
		if err := c.readResp(idResp, deadline); err != nil {
			return fin(err)
		}
		return fin(c.readResp(resp, deadline))
	default: // ignore-reply
		if err := c.doRPC(idReq, idResp, deadline); err != nil {
			return fin(err)
		}
	}
	if err := c.writeReq(rq, deadline); err != nil {
		return fin(err)
	}
	if len(payload) > 0 {
		if _, err := c.rwc.Write(payload); err != nil {
			return fin(err)
		}
	}
	return fin(c.readResp(resp, deadline))
}

// ---------------------------------------------------------------- stub listener

// c20StubAnswers: what the stand-in listener does with the handshake.
var c20StubAnswers = func() []string {
	out := []string{}
	for v := 0; v <= 12; v++ {
		out = append(out, fmt.Sprintf("result=%d", v))
	}
	return append(out, "result=255", "close-before-reply", "truncated-reply", "silence")
}()

func c20RunStub(cs c20HSCase) *c20HSResult {
	res := &c20HSResult{Case: cs}
	nw := c20NewNet()
	lr := nw.listen(c20ListenAddr, "stub")
	defer lr.Close()
	cfg := c20HSConfig()
	src := 3 - cs.Belief.NID
	var wg sync.WaitGroup
	wg.Add(1)
	go func() {
		defer wg.Done()
		rwc, err := lr.Accept()
		if err != nil {
			return
		}
		defer rwc.Close()
		c := &conn{rwc: rwc, bufr: bufio.NewReader(rwc), bufw: bufio.NewWriter(rwc)}
		_ = rwc.SetReadDeadline(time.Now().Add(5 * time.Second))
		b, err := c.bufr.ReadByte()
		if err != nil || rpcType(b) != rpcIdentity {
			return
		}
		if err := (&identityReq{}).decode(c.bufr); err != nil {
			return
		}
		var result int
		switch cs.Mode {
		case "close-before-reply":
			return
		case "truncated-reply":
			_, _ = rwc.Write([]byte{1, 0, 0, 0})
			return
		case "silence":
			// never answers; keeps reading until the dialer gives up
			_ = rwc.SetReadDeadline(time.Now().Add(3 * time.Second))
			_, _ = c.bufr.ReadByte()
			return
		default:
			_, _ = fmt.Sscanf(cs.Mode, "result=%d", &result)
		}
		r := &identityResp{resp{term: 1, result: rpcResult(result)}}
		if rpcResult(result) == unexpectedErr {
			r.err = fmt.Errorf("stub")
		}
		if err := r.encode(c.bufw); err != nil {
			return
		}
		_ = c.bufw.Flush()
		// keep the connection open and answer whatever request follows with success
		_ = rwc.SetReadDeadline(time.Now().Add(2 * time.Second))
		b, err = c.bufr.ReadByte()
		if err != nil {
			return
		}
		rt := rpcType(b)
		if !rt.isValid() {
			return
		}
		rq := rt.createReq()
		if err := rq.decode(c.bufr); err != nil {
			return
		}
		var out response
		switch rt {
		case rpcVote:
			out = &voteResp{resp{term: 1, result: success}}
		case rpcAppendEntries:
			out = &appendResp{resp{term: 1, result: success}, 3}
		case rpcInstallSnap:
			out = &installSnapResp{resp{term: 1, result: success}}
		case rpcTimeoutNow:
			out = &timeoutNowResp{resp{term: 1, result: success}}
		default:
			return
		}
		_ = out.encode(c.bufw)
		_ = c.bufw.Flush()
		_ = rwc.SetReadDeadline(time.Now().Add(2 * time.Second))
		_, _ = c.bufr.ReadByte() // until the dialer closes / gives up
	}()

	pool := c20NewPool(nw, cs.Belief, src, c20ListenAddr)
	var result rpcResult
	var err error
	if cs.Mode == "silence" {
		// getConn with a short deadline (the stub never answers)
		var c *conn
		c, err = pool.getConn(time.Now().Add(150 * time.Millisecond))
		if err == nil {
			result, err = c20SendOn(c, cs.Kind, c20ReqTerm, src, cfg, time.Now().Add(time.Second))
			_ = c.rwc.Close()
		}
	} else {
		result, err = c20Send(pool, cs.Kind, c20ReqTerm, src, cfg)
	}
	pool.closeAll()
	a := c20Attempt{ErrCls: c20ErrClass(err), Result: int(result)}
	if err != nil {
		a.Err = err.Error()
	}
	res.Attempts = append(res.Attempts, a)
	// let the stub finish
	for _, r := range nw.conns {
		_ = r.cli.Close()
	}
	wg.Wait()
	res.Conns = nw.stats()
	ok := cs.Mode == fmt.Sprintf("result=%d", int(success))
	for _, st := range res.Conns {
		if ok {
			if st.CliWritten <= c20HandshakeLen || a.ErrCls != "nil" {
				res.fail("matching-request-not-processed:stub,"+cs.Kind.String(), "handshake answered success but the request was not sent: wrote %d bytes, err %q", st.CliWritten, a.Err)
			} else {
				res.Processed++
			}
			continue
		}
		if st.CliWritten != c20HandshakeLen {
			res.fail("dialer-wrote-after-failed-handshake:stub,"+c20StubClass(cs.Mode)+","+cs.Kind.String(),
				"handshake answered with %s, the dialer still wrote %d bytes beyond the handshake", cs.Mode, st.CliWritten-c20HandshakeLen)
		}
		if a.ErrCls != "IdentityError" {
			res.fail("dialer-no-identity-error:stub,"+c20StubClass(cs.Mode), "handshake answered with %s, dialer returned %q (class %s), want IdentityError", cs.Mode, a.Err, a.ErrCls)
		}
	}
	if len(res.Conns) != 1 {
		res.Harness = fmt.Sprintf("stub saw %d connections, want 1", len(res.Conns))
	}
	return res
}

func c20StubClass(mode string) string {
	switch mode {
	case "result=2":
		return "identityMismatch"
	case "close-before-reply", "truncated-reply", "silence":
		return mode
	}
	return "other-result"
}

// ---------------------------------------------------------------- timer

// c20TimerWorld is one real *Raft (not serving) on which replyRPC is called
// directly, the way stateLoop calls it.
type c20TimerWorld struct {
	root string
	rr   map[c20Ident]*Raft
}

func c20NewTimerWorld() (*c20TimerWorld, error) {
	w := &c20TimerWorld{root: vkScratch("c20tm"), rr: map[c20Ident]*Raft{}}
	opt := c20Options(time.Hour)
	for _, id := range c20Idents {
		dir := fmt.Sprintf("%s/%d-%d", w.root, id.CID, id.NID)
		if err := os.MkdirAll(dir, 0700); err != nil {
			return nil, err
		}
		if err := c20PrepareDir(dir, id, c20HSConfig(), opt); err != nil {
			return nil, err
		}
		r, err := New(opt, &c20FSM{}, dir)
		if err != nil {
			return nil, err
		}
		w.rr[id] = r
	}
	return w, nil
}

func (w *c20TimerWorld) close() {
	for _, r := range w.rr {
		_ = r.storage.log.Close()
	}
	_ = c20RemoveAll(w.root)
}

func (w *c20TimerWorld) run(cs c20HSCase) *c20HSResult {
	res := &c20HSResult{Case: cs}
	r := w.rr[cs.Actual]
	r.leader = cs.Leader
	before := c20ReadState(r, nil)
	p := &rpc{req: &identityReq{req: req{src: cs.Src}, cid: cs.Belief.CID, nid: cs.Belief.NID}, done: make(chan struct{})}
	res.Reset = r.replyRPC(p)
	after := c20ReadState(r, nil)
	r.leader = 0
	res.Before, res.After = before, after
	res.Attempts = []c20Attempt{{ErrCls: "nil", Result: int(p.resp.getResult())}}
	match := cs.Belief == cs.Actual
	cls := c20MismatchClass(cs.Belief, cs.Actual)
	if want := map[bool]rpcResult{true: success, false: identityMismatch}[match]; p.resp.getResult() != want {
		res.fail("handshake-wrong-result:"+cls, "replyRPC answered %d to a handshake naming %v on node %v, want %d", p.resp.getResult(), cs.Belief, cs.Actual, want)
	}
	if before != after {
		res.fail("foreign-request-processed:timer,"+cls+",identity", "identity request changed the state: {%v} -> {%v}", before, after)
	}
	if !match && res.Reset {
		rel := "src!=leader"
		if cs.Src == cs.Leader {
			rel = "src==leader"
		}
		res.fail("foreign-handshake-resets-election-timer:"+rel,
			"node %v with leader=%d answered identityMismatch to a handshake from src=%d naming %v, yet replyRPC reports contact from the leader (resetTimer=true): the follower's election timer is reset by a peer of another cluster/node", cs.Actual, cs.Leader, cs.Src, cs.Belief)
	}
	if match {
		res.Processed = 1
	}
	return res
}

// c20TimerDemo runs the consequence end to end on the real Serve: a follower
// of cluster 1 (leader known, silent) is dialled every few ms by a node of
// cluster 2 that has the leader's node id; control: same without the foreign
// dialer.  Returns (term/role with foreign traffic, term/role without).
func c20TimerDemo() (with, without c20State, foreignHandshakes int, err error) {
	run := func(foreign bool) (c20State, int, error) {
		root := vkScratch("c20td")
		defer c20RemoveAll(root)
		nw := c20NewNet()
		hb := 100 * time.Millisecond
		F, err := c20StartNode(nw, root+"/f", c20Ident{1, 2}, c20HSConfig(), c20ListenAddr, "F", c20Options(hb))
		if err != nil {
			return c20State{}, 0, err
		}
		defer F.stop()
		// the real leader (cluster 1, node 1) sends one heartbeat and goes silent, connection stays open
		ldr := c20NewPool(nw, c20Ident{1, 2}, 1, c20ListenAddr)
		defer ldr.closeAll()
		c, err := ldr.getConn(time.Now().Add(time.Second))
		if err != nil {
			return c20State{}, 0, err
		}
		defer c.rwc.Close()
		resp := &appendResp{}
		if err := c.doRPC(&appendReq{req: req{1, 1}, prevLogIndex: 1, prevLogTerm: 1}, resp, time.Now().Add(time.Second)); err != nil || resp.result != success {
			return c20State{}, 0, fmt.Errorf("heartbeat: %v %v", err, resp.result)
		}
		n := 0
		end := time.Now().Add(15 * hb)
		fp := c20NewPool(nw, c20Ident{2, 2}, 1, c20ListenAddr) // cluster 2's node 1 looking for cluster 2's node 2
		for time.Now().Before(end) {
			if foreign {
				if _, err := fp.getConn(time.Now().Add(time.Second)); c20ErrClass(err) != "IdentityError" {
					return c20State{}, n, fmt.Errorf("foreign dial: %v", err)
				}
				n++
			}
			time.Sleep(5 * time.Millisecond)
		}
		st, err := F.inspectState()
		return st, n, err
	}
	if with, foreignHandshakes, err = run(true); err != nil {
		return
	}
	without, _, err = run(false)
	return
}
