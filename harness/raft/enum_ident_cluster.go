//go:build verif
// +build verif

package raft

// C20 part (ii): two clusters with the same node ids on one network; every
// item of an address mix-up menu is applied to the ACTIVE cluster (real nodes,
// real Serve, millisecond timers) while the other cluster is idle (timeouts of
// an hour), so that any change of the idle cluster's state is caused by the
// active cluster's traffic.  Scheduling is whatever the Go runtime does: this
// part is complete over the menu only.
//
// Oracles, per world:
//   * every idle node's (term, vote, leader, role, log, snapshot, commit, FSM)
//     is identical before and after (read inside its own state loop, and again
//     after shutdown);
//   * every connection of the world whose handshake names an identity other
//     than the accepting node's carries exactly the handshake (33 bytes) from
//     the dialer and exactly one identityMismatch reply (9 bytes) from the
//     listener, whoever dialled it and for whatever reason;
//   * the active cluster's logs match each other, contain nothing but its own
//     entries, and an acknowledged update is on a majority;
//   * differential (soft): whether the active cluster commits its update is
//     the same with the idle cluster present and absent.

import (
	"encoding/json"
	"fmt"
	"sort"
	"strings"
	"sync/atomic"
	"time"
)

type c20Mix struct {
	Kind string `json:"kind"`
	K    uint64 `json:"k,omitempty"` // affected node
	J    uint64 `json:"j,omitempty"` // second node / foreign node
	O    uint64 `json:"o,omitempty"` // observer (node that has the resolver)
}

func (m c20Mix) String() string {
	switch m.Kind {
	case "cfg-swap":
		return fmt.Sprintf("cfg-swap(%d,%d)", m.K, m.J)
	case "cfg-point-other":
		return fmt.Sprintf("cfg-point-other(%d->B%d)", m.K, m.J)
	case "resolver-one":
		return fmt.Sprintf("resolver-one(node %d: %d->B%d)", m.O, m.K, m.K)
	case "resolver-all-others", "none":
		return m.Kind
	}
	return fmt.Sprintf("%s(%d)", m.Kind, m.K)
}

func c20MixMenu() []c20Mix {
	var out []c20Mix
	ids := []uint64{1, 2, 3}
	for i := 0; i < 3; i++ {
		for j := i + 1; j < 3; j++ {
			out = append(out, c20Mix{Kind: "cfg-swap", K: ids[i], J: ids[j]})
		}
	}
	for _, k := range ids {
		out = append(out, c20Mix{Kind: "cfg-point-same", K: k})
	}
	for _, k := range ids {
		for _, j := range ids {
			if j != k {
				out = append(out, c20Mix{Kind: "cfg-point-other", K: k, J: j})
			}
		}
	}
	for _, k := range ids {
		out = append(out, c20Mix{Kind: "resolver-all", K: k})
	}
	for _, o := range ids {
		for _, k := range ids {
			if o != k {
				out = append(out, c20Mix{Kind: "resolver-one", O: o, K: k})
			}
		}
	}
	for _, k := range ids {
		out = append(out, c20Mix{Kind: "net-repoint-before", K: k})
	}
	for _, k := range ids {
		out = append(out, c20Mix{Kind: "net-repoint-after", K: k})
	}
	for _, k := range ids {
		out = append(out, c20Mix{Kind: "changeconfig-addr", K: k})
	}
	return append(out, c20Mix{Kind: "resolver-all-others"})
}

type c20WorldCase struct {
	Mixes      []c20Mix `json:"mixes"`
	ActiveCID  uint64   `json:"active_cid"`
	IdleAbsent bool     `json:"idle_absent,omitempty"`
	BothActive bool     `json:"both_active,omitempty"`
}

func (w c20WorldCase) String() string {
	var m []string
	for _, x := range w.Mixes {
		m = append(m, x.String())
	}
	s := fmt.Sprintf("active cid=%d %s", w.ActiveCID, strings.Join(m, "+"))
	if w.IdleAbsent {
		s += " (other cluster absent)"
	}
	if w.BothActive {
		s += " (both active)"
	}
	return s
}

type c20Resolver map[uint64]string

func (r c20Resolver) LookupID(id uint64, timeout time.Duration) (string, error) {
	if a, ok := r[id]; ok {
		return a, nil
	}
	return "", fmt.Errorf("c20 resolver: node %d unknown", id)
}

type c20WorldResult struct {
	Case          c20WorldCase  `json:"case"`
	Committed     []bool        `json:"updates_committed"`
	Leader        uint64        `json:"leader_seen"`
	IdleBefore    []c20State    `json:"idle_before,omitempty"`
	IdleAfter     []c20State    `json:"idle_after,omitempty"`
	ActiveFinal   []c20State    `json:"active_final"`
	Conns         int           `json:"conns"`
	Mismatched    int           `json:"conns_with_foreign_handshake"`
	CrossCluster  int           `json:"conns_cross_cluster"`
	BadConns      []c20ConnStat `json:"bad_conns,omitempty"`
	ConfigTaskErr string        `json:"changeconfig_result,omitempty"`
	Steered       string        `json:"leadership_steered,omitempty"`
	Fails         []string      `json:"fails,omitempty"`
	Harness       string        `json:"harness_error,omitempty"`
	WallMs        int64         `json:"wall_ms"`
}

func (r *c20WorldResult) fail(key, format string, a ...interface{}) {
	r.Fails = append(r.Fails, key+"\x00"+fmt.Sprintf(format, a...)+" [world: "+r.Case.String()+"]")
}

func c20AddrOf(cluster string, id uint64) string { return fmt.Sprintf("%s%d:7", cluster, id) }

const (
	c20ActiveHB = 60 * time.Millisecond
)

func c20RunWorld(wc c20WorldCase) (res *c20WorldResult) {
	t0 := time.Now()
	res = &c20WorldResult{Case: wc}
	defer func() { res.WallMs = time.Since(t0).Milliseconds() }()
	root := vkScratch("c20w")
	defer c20RemoveAll(root)
	nw := c20NewNet()
	ids := []uint64{1, 2, 3}
	idleCID := 3 - wc.ActiveCID
	identOf := map[string]c20Ident{}

	// ---- the idle cluster B
	var idle []*c20Node
	var all []*c20Node
	defer func() {
		for _, n := range all {
			if err := n.stop(); err != nil && res.Harness == "" {
				res.Harness = "stop " + n.tag + ": " + err.Error()
			}
		}
	}()
	hbB := time.Hour
	if wc.BothActive {
		hbB = c20ActiveHB
	}
	cfgB := map[uint64]string{}
	for _, id := range ids {
		cfgB[id] = c20AddrOf("B", id)
	}
	if wc.BothActive {
		// the mirror mix-up: B's view of the affected node points at A's node
		for _, m := range wc.Mixes {
			if m.Kind == "cfg-point-same" {
				cfgB[m.K] = c20AddrOf("A", m.K)
			}
		}
	}
	if !wc.IdleAbsent {
		for _, id := range ids {
			tag := fmt.Sprintf("B%d", id)
			identOf[tag] = c20Ident{idleCID, id}
			n, err := c20StartNode(nw, fmt.Sprintf("%s/b%d", root, id), c20Ident{idleCID, id}, c20Config(cfgB), c20AddrOf("B", id), tag, c20Options(hbB))
			if err != nil {
				res.Harness = "start " + tag + ": " + err.Error()
				return res
			}
			idle = append(idle, n)
			all = append(all, n)
		}
		if !wc.BothActive {
			for _, n := range idle {
				st, err := n.inspectState()
				if err != nil {
					res.Harness = err.Error()
					return res
				}
				res.IdleBefore = append(res.IdleBefore, st)
			}
		}
	}

	// ---- the active cluster A with its mix-ups
	cfgA := map[uint64]string{}
	for _, id := range ids {
		cfgA[id] = c20AddrOf("A", id)
	}
	resolvers := map[uint64]c20Resolver{}
	addRes := func(o, k uint64, addr string) {
		if resolvers[o] == nil {
			resolvers[o] = c20Resolver{}
		}
		resolvers[o][k] = addr
	}
	for _, m := range wc.Mixes {
		switch m.Kind {
		case "cfg-swap":
			cfgA[m.K], cfgA[m.J] = cfgA[m.J], cfgA[m.K]
		case "cfg-point-same":
			cfgA[m.K] = c20AddrOf("B", m.K)
		case "cfg-point-other":
			cfgA[m.K] = c20AddrOf("B", m.J)
		case "resolver-all":
			for _, o := range ids {
				addRes(o, m.K, c20AddrOf("B", m.K))
			}
		case "resolver-one":
			addRes(m.O, m.K, c20AddrOf("B", m.K))
		case "resolver-all-others":
			for _, o := range ids {
				for _, k := range ids {
					if k != o {
						addRes(o, k, c20AddrOf("B", k))
					}
				}
			}
		}
	}
	{
		seen := map[string]bool{}
		for _, a := range cfgA {
			if seen[a] {
				res.Harness = "mix-ups produce a configuration with a duplicate address (not a valid Config)"
				return res
			}
			seen[a] = true
		}
	}
	var active []*c20Node
	// start order: a node with a private resolver first (it should lead and dial),
	// the affected node last (it should be dialled, not lead)
	order := append([]uint64(nil), ids...)
	rank := map[uint64]int{}
	for _, m := range wc.Mixes {
		if m.O != 0 {
			rank[m.O] -= 2
		}
		if m.K != 0 && m.Kind != "cfg-swap" {
			rank[m.K] += 2
		}
	}
	sort.SliceStable(order, func(i, j int) bool { return rank[order[i]] < rank[order[j]] })
	for _, id := range order {
		tag := fmt.Sprintf("A%d", id)
		identOf[tag] = c20Ident{wc.ActiveCID, id}
		opt := c20Options(c20ActiveHB)
		if r, ok := resolvers[id]; ok {
			opt.Resolver = r
		}
		// a node always listens at its true address, whatever the configuration says
		n, err := c20StartNode(nw, fmt.Sprintf("%s/a%d", root, id), c20Ident{wc.ActiveCID, id}, c20Config(cfgA), c20AddrOf("A", id), tag, opt)
		if err != nil {
			res.Harness = "start " + tag + ": " + err.Error()
			return res
		}
		active = append(active, n)
		all = append(all, n)
	}
	idleListener := func(k uint64) *c20Listener {
		for _, n := range idle {
			if n.id.NID == k {
				return n.lr
			}
		}
		return nil
	}
	for _, m := range wc.Mixes {
		if m.Kind == "net-repoint-before" {
			nw.repoint(c20AddrOf("A", m.K), idleListener(m.K))
		}
	}

	// ---- drive: election, one update, late mix-ups, second update
	update := func(cluster []*c20Node, data string, budget time.Duration) (bool, uint64) {
		deadline := time.Now().Add(budget)
		for time.Now().Before(deadline) {
			var ldr *c20Node
			for _, n := range cluster {
				st, err := n.inspectState()
				if err == nil && st.Role == "leader" {
					ldr = n
				}
			}
			if ldr == nil {
				time.Sleep(10 * time.Millisecond)
				continue
			}
			t := UpdateFSM([]byte(data))
			select {
			case ldr.r.FSMTasks() <- t:
			case <-time.After(200 * time.Millisecond):
				continue
			}
			select {
			case <-t.Done():
				if t.Err() == nil {
					return true, ldr.id.NID
				}
			case <-time.After(time.Until(deadline)):
				return false, 0
			}
			time.Sleep(10 * time.Millisecond)
		}
		return false, 0
	}
	budget := 6 * time.Second
	if len(resolvers) == 3 && len(resolvers[1]) == 2 {
		budget = 600 * time.Millisecond // resolver-all-others: no quorum can form
	}
	tag := fmt.Sprintf("c%d", wc.ActiveCID)
	ok, ldr := update(active, tag+"-update-1", budget)
	res.Committed = append(res.Committed, ok)
	res.Leader = ldr
	late := false
	// steer leadership so that the mixed-up address is actually dialled: the node
	// holding a private resolver should lead, the affected node should not
	if ok {
		var want, avoid uint64
		for _, m := range wc.Mixes {
			if m.O != 0 {
				want = m.O
			}
			if m.K != 0 && m.Kind != "cfg-swap" {
				avoid = m.K
			}
		}
		target := uint64(0)
		switch {
		case want != 0 && ldr != want:
			target = want
		case want == 0 && avoid != 0 && ldr == avoid:
			target = avoid%3 + 1
		}
		if target != 0 {
			for _, n := range active {
				if n.id.NID != ldr {
					continue
				}
				t := TransferLeadership(target, 2*time.Second)
				select {
				case n.r.Tasks() <- t:
					select {
					case <-t.Done():
						res.Steered = fmt.Sprintf("%d->%d: %v", ldr, target, t.Err())
					case <-time.After(4 * time.Second):
						res.Steered = "timeout"
					}
				case <-time.After(time.Second):
					res.Steered = "not accepted"
				}
			}
			late = true
		}
	}
	for _, m := range wc.Mixes {
		switch m.Kind {
		case "net-repoint-after":
			late = true
			nw.repoint(c20AddrOf("A", m.K), idleListener(m.K))
			nw.closeConnsTo(c20AddrOf("A", m.K))
		case "changeconfig-addr":
			late = true
			for _, n := range active {
				st, err := n.inspectState()
				if err != nil || st.Role != "leader" {
					continue
				}
				var cfg Config
				_ = n.r.inspect(func(r *Raft) { cfg = r.configs.Latest.clone() })
				if err := cfg.SetAddr(m.K, c20AddrOf("B", m.K)); err != nil {
					res.ConfigTaskErr = err.Error()
					break
				}
				t := ChangeConfig(cfg)
				select {
				case n.r.Tasks() <- t:
					select {
					case <-t.Done():
						res.ConfigTaskErr = fmt.Sprint(t.Err())
					case <-time.After(3 * time.Second):
						res.ConfigTaskErr = "timeout"
					}
				case <-time.After(time.Second):
					res.ConfigTaskErr = "not accepted"
				}
				// the connection to the node drops; the next dial uses the new address
				nw.closeConnsTo(c20AddrOf("A", m.K))
				break
			}
		}
	}
	if late {
		ok, _ := update(active, tag+"-update-2", budget)
		res.Committed = append(res.Committed, ok)
	}
	if wc.BothActive {
		ok, _ := update(idle, fmt.Sprintf("c%d-update-1", idleCID), budget)
		res.Committed = append(res.Committed, ok)
	}
	// let retries and elections of cut-off nodes hit the foreign listeners
	time.Sleep(5 * c20ActiveHB)

	// ---- observe the idle cluster inside its state loops, then stop everything
	if !wc.IdleAbsent && !wc.BothActive {
		for _, n := range idle {
			st, err := n.inspectState()
			if err != nil {
				res.Harness = err.Error()
				return res
			}
			res.IdleAfter = append(res.IdleAfter, st)
		}
	}
	for _, n := range all {
		if err := n.stop(); err != nil {
			if n.serveErr != nil && n.serveErr != ErrServerClosed {
				// the node brought itself down (panic recovered by stateLoop): not an
				// identity matter, but a failure of the library all the same
				res.fail("node-died:"+c20Normalize(n.serveErr.Error()), "node %v stopped serving by itself: %v", n.id, n.serveErr)
				continue
			}
			res.Harness = "stop " + n.tag + ": " + err.Error()
			return res
		}
	}
	for _, n := range active {
		res.ActiveFinal = append(res.ActiveFinal, c20ReadState(n.r, n.fsm))
	}

	// ---- oracles
	if !wc.IdleAbsent && !wc.BothActive {
		for i, n := range idle {
			final := c20ReadState(n.r, n.fsm)
			if res.IdleBefore[i] != res.IdleAfter[i] || res.IdleBefore[i] != final {
				res.fail("idle-cluster-changed:"+c20MixKinds(wc.Mixes), "node %v of the idle cluster changed: before {%v} after {%v} final {%v}", n.id, res.IdleBefore[i], res.IdleAfter[i], final)
			}
		}
	}
	stats := nw.stats()
	res.Conns = len(stats)
	for _, st := range stats {
		_, belief, ok := c20ParseHandshake(st.head)
		actual := identOf[st.Owner]
		if !ok {
			if st.CliWritten > 0 {
				res.fail("conn-without-handshake", "connection #%d %s->%s starts with %x, not with an identity request", st.Seq, st.From, st.Owner, st.head[:c20MinInt(len(st.head), 8)])
			}
			continue
		}
		if identOf[st.From].CID != actual.CID {
			res.CrossCluster++
		}
		if belief == actual {
			continue
		}
		res.Mismatched++
		cls := c20MismatchClass(belief, actual)
		bad := false
		if st.CliWritten != c20HandshakeLen {
			bad = true
			res.fail("dialer-wrote-after-failed-handshake:world,"+cls, "connection #%d %s->%s: handshake names %v, listener is %v, yet the dialer wrote %d bytes (handshake is %d)", st.Seq, st.From, st.Owner, belief, actual, st.CliWritten, c20HandshakeLen)
		}
		// no reply at all is fine (listener shutting down / connection cut first)
		if st.SrvWritten != 0 && (st.SrvWritten != c20IdentRespLen || len(st.srvHead) < c20IdentRespLen || rpcResult(st.srvHead[8]) != identityMismatch) {
			bad = true
			res.fail("foreign-request-processed:world,"+cls, "connection #%d %s->%s: handshake names %v, listener is %v, the listener wrote %d bytes (one identityMismatch reply is %d): % x", st.Seq, st.From, st.Owner, belief, actual, st.SrvWritten, c20IdentRespLen, st.srvHead[:c20MinInt(len(st.srvHead), 24)])
		}
		if bad && len(res.BadConns) < 4 {
			res.BadConns = append(res.BadConns, st)
		}
	}
	// the active cluster's own consistency
	c20CheckClusterLogs(res, active, tag)
	if wc.BothActive {
		c20CheckClusterLogs(res, idle, fmt.Sprintf("c%d", idleCID))
	}
	if len(res.Committed) > 0 && res.Committed[0] {
		n := 0
		for _, a := range active {
			if strings.Contains(c20ReadState(a.r, a.fsm).Log, tag+"-update-1") {
				n++
			}
		}
		if n < 2 {
			res.fail("acknowledged-update-not-on-majority", "update 1 was acknowledged but is in the log of %d of 3 nodes", n)
		}
	}
	return res
}

// c20Normalize replaces digits so that a message becomes a stable key.
func c20Normalize(s string) string {
	b := []byte(s)
	for i, c := range b {
		if c >= '0' && c <= '9' {
			b[i] = 'N'
		} else if c == ' ' {
			b[i] = '_'
		}
	}
	out := string(b)
	for strings.Contains(out, "NN") {
		out = strings.Replace(out, "NN", "N", -1)
	}
	return out
}

func c20MinInt(a, b int) int {
	if a < b {
		return a
	}
	return b
}

func c20MixKinds(mixes []c20Mix) string {
	var k []string
	for _, m := range mixes {
		k = append(k, m.Kind)
	}
	sort.Strings(k)
	return strings.Join(k, "+")
}

// c20CheckClusterLogs: log matching inside one cluster and no foreign data.
func c20CheckClusterLogs(res *c20WorldResult, nodes []*c20Node, tag string) {
	type ent struct {
		term uint64
		typ  entryType
		data string
	}
	logs := make([]map[uint64]ent, len(nodes))
	for i, n := range nodes {
		logs[i] = map[uint64]ent{}
		r := n.r
		for idx := r.log.PrevIndex() + 1; idx <= r.lastLogIndex; idx++ {
			e := &entry{}
			if err := r.storage.getEntry(idx, e); err != nil {
				continue
			}
			data := string(e.data)
			if e.typ == entryConfig {
				// Config.encode walks a map: equal configurations have different bytes
				var c Config
				if err := c.decode(e); err == nil {
					data = c20CanonConfig(c)
				}
			}
			logs[i][idx] = ent{e.term, e.typ, data}
			if e.typ == entryUpdate && !strings.HasPrefix(string(e.data), tag+"-") {
				res.fail("foreign-entry-in-log", "node %v has entry %d %q that its cluster never proposed", n.id, idx, e.data)
			}
		}
		for _, u := range n.fsm.updates {
			if !strings.HasPrefix(string(u), tag+"-") {
				res.fail("foreign-entry-applied", "node %v applied %q that its cluster never proposed", n.id, u)
			}
		}
	}
	for i := range logs {
		for j := i + 1; j < len(logs); j++ {
			for idx, a := range logs[i] {
				if b, ok := logs[j][idx]; ok && a.term == b.term && a != b {
					res.fail("log-mismatch-in-cluster", "nodes %v and %v differ at index %d term %d", nodes[i].id, nodes[j].id, idx, a.term)
				}
			}
		}
	}
}

func c20CanonConfig(c Config) string {
	var ids []uint64
	for id := range c.Nodes {
		ids = append(ids, id)
	}
	sort.Slice(ids, func(i, j int) bool { return ids[i] < ids[j] })
	s := fmt.Sprintf("cfg@%d/%d", c.Index, c.Term)
	for _, id := range ids {
		n := c.Nodes[id]
		s += fmt.Sprintf(" %d:%s:%v:%v:%q", n.ID, n.Addr, n.Voter, n.Action, n.Data)
	}
	return s
}

// c20RunWorldInChild isolates the world: a failed assertion in any node kills
// the whole process by the library's design.
func c20RunWorldInChild(wc c20WorldCase) *c20WorldResult {
	out, crash, err := c20Child(wc, "c20worldworker")
	res := &c20WorldResult{Case: wc}
	if err != nil {
		res.fail("node-panicked:"+c20Normalize(crash), "a node of the world crashed the process: %s", crash)
		return res
	}
	if err := json.Unmarshal(out, res); err != nil {
		res.Harness = "world child: " + err.Error()
	}
	return res
}

// ---------------------------------------------------------------- driver

func c20WorldCases(tier string) []c20WorldCase {
	var out []c20WorldCase
	menu := c20MixMenu()
	for _, cid := range []uint64{1, 2} {
		for _, m := range menu {
			out = append(out, c20WorldCase{Mixes: []c20Mix{m}, ActiveCID: cid})
			out = append(out, c20WorldCase{Mixes: []c20Mix{m}, ActiveCID: cid, IdleAbsent: true})
		}
		for _, k := range []uint64{1, 2, 3} {
			out = append(out, c20WorldCase{Mixes: []c20Mix{{Kind: "cfg-point-same", K: k}}, ActiveCID: cid, BothActive: true})
		}
	}
	if tier == "thorough" {
		// every unordered pair of menu items that yields a valid configuration
		for _, cid := range []uint64{1, 2} {
			for i := range menu {
				for j := i + 1; j < len(menu); j++ {
					if menu[i].Kind == "resolver-all-others" || menu[j].Kind == "resolver-all-others" {
						continue
					}
					if c20MixConflict(menu[i], menu[j]) {
						continue
					}
					out = append(out, c20WorldCase{Mixes: []c20Mix{menu[i], menu[j]}, ActiveCID: cid})
				}
			}
		}
	}
	return out
}

// c20MixConflict: two config mix-ups that would give two nodes one address,
// or two late actions (only one is driven per world).
func c20MixConflict(a, b c20Mix) bool {
	cfg := map[uint64]string{1: "A1", 2: "A2", 3: "A3"}
	late := 0
	for _, m := range []c20Mix{a, b} {
		switch m.Kind {
		case "cfg-swap":
			cfg[m.K], cfg[m.J] = cfg[m.J], cfg[m.K]
		case "cfg-point-same":
			cfg[m.K] = fmt.Sprintf("B%d", m.K)
		case "cfg-point-other":
			cfg[m.K] = fmt.Sprintf("B%d", m.J)
		case "net-repoint-after", "changeconfig-addr":
			late++
		}
	}
	seen := map[string]bool{}
	for _, v := range cfg {
		if seen[v] {
			return true
		}
		seen[v] = true
	}
	return late > 1
}

func c20PartCluster(ctx *c20Ctx) bool {
	cases := c20WorldCases(ctx.tier)
	results := make([]*c20WorldResult, len(cases))
	workers := ctx.workers
	if workers > 6 {
		workers = 6 // six real nodes with millisecond timers per world
	}
	var reruns int64
	c20Parallel(len(cases), workers, func(i int) {
		for try := 0; try < 3; try++ {
			results[i] = c20RunWorldInChild(cases[i])
			if cases[i].IdleAbsent || results[i].Harness != "" || results[i].Mismatched > 0 || len(results[i].Fails) > 0 {
				break
			}
			atomic.AddInt64(&reruns, 1) // no foreign handshake happened (e.g. the affected node led): run the world again
		}
	})
	var worlds, mismatched, cross, vacuous, committed, diffMismatch int
	byKey := map[string]*c20WorldResult{}
	for i, r := range results {
		wc := cases[i]
		atomic.AddInt64(&ctx.evals, 1)
		if r.Harness != "" {
			ctx.harnessErr("cluster", "%v: %s", wc, r.Harness)
			continue
		}
		worlds++
		mismatched += r.Mismatched
		cross += r.CrossCluster
		if len(r.Committed) > 0 && r.Committed[0] {
			committed++
		}
		b, _ := json.Marshal(wc.Mixes)
		byKey[fmt.Sprintf("%s|%d|%v|%v", b, wc.ActiveCID, wc.IdleAbsent, wc.BothActive)] = r
		kind := c20MixKinds(wc.Mixes)
		mode := "idle-present"
		if wc.IdleAbsent {
			mode = "idle-absent"
		} else if wc.BothActive {
			mode = "both-active"
		}
		if !wc.IdleAbsent && r.Mismatched == 0 {
			vacuous++
			ctx.note("world %v produced no connection with a foreign handshake (vacuous for the isolation oracle)", wc)
		} else {
			outcome := fmt.Sprintf("foreign-handshakes>0:%v oracles-hold:%v", r.Mismatched > 0, len(r.Fails) == 0)
			ctx.distinct.add("cluster", kind+" "+mode, outcome)
		}
		if i%23 == 1 {
			ctx.samples.Add(map[string]interface{}{"part": "cluster", "world": wc.String(), "updates_committed": r.Committed, "conns": r.Conns, "conns_with_foreign_handshake": r.Mismatched, "cross_cluster_conns": r.CrossCluster, "idle_after": c20StateStrings(r.IdleAfter), "active_final": c20StateStrings(r.ActiveFinal), "wall_ms": r.WallMs})
		}
		for _, f := range r.Fails {
			kv := strings.SplitN(f, "\x00", 2)
			ctx.run.Violation(kv[0], kv[1], map[string]interface{}{"part": "cluster", "case": wc})
		}
	}
	// differential (soft): progress with the idle cluster present vs absent
	for i, wc := range cases {
		if wc.IdleAbsent || wc.BothActive || len(wc.Mixes) != 1 || results[i].Harness != "" {
			continue
		}
		b, _ := json.Marshal(wc.Mixes)
		other := byKey[fmt.Sprintf("%s|%d|%v|%v", b, wc.ActiveCID, true, false)]
		if other == nil {
			continue
		}
		if c20AllTrue(results[i].Committed) != c20AllTrue(other.Committed) {
			diffMismatch++
			ctx.note("differential: %v: every submitted update committed = %v with the other cluster present and %v with it absent (timing-dependent; recorded, not a verdict)", wc, c20AllTrue(results[i].Committed), c20AllTrue(other.Committed))
		}
	}
	cov := ctx.run.Cov
	cov["cluster_mixups"] = worlds
	cov["cluster_menu_items"] = len(c20MixMenu())
	cov["cluster_conns_with_foreign_handshake"] = mismatched
	cov["cluster_cross_cluster_conns"] = cross
	cov["cluster_worlds_without_foreign_traffic"] = vacuous
	cov["cluster_world_reruns_for_lack_of_foreign_traffic"] = int(reruns)
	cov["cluster_worlds_first_update_committed"] = committed
	cov["cluster_differential_progress_mismatches"] = diffMismatch
	if mismatched == 0 {
		ctx.harnessErr("cluster", "vacuous: no world produced a foreign handshake")
	}
	return atomic.LoadInt64(&ctx.harness) == 0 // complete over the menu; schedules are not enumerated
}

func c20AllTrue(b []bool) bool {
	for _, x := range b {
		if !x {
			return false
		}
	}
	return true
}

func c20StateStrings(s []c20State) []string {
	var out []string
	for _, x := range s {
		out = append(out, x.String())
	}
	return out
}

func c20ReplayCluster(raw json.RawMessage) []string {
	var x struct {
		Case c20WorldCase `json:"case"`
	}
	if err := json.Unmarshal(raw, &x); err != nil {
		fmt.Println("replay:", err)
		return nil
	}
	// schedules are not controlled: replay the world a few times
	var fails []string
	for i := 0; i < 5 && len(fails) == 0; i++ {
		r := c20RunWorld(x.Case)
		if r.Harness != "" {
			fmt.Println("harness error:", r.Harness)
			continue
		}
		fmt.Printf("  run %d: committed=%v conns=%d foreign-handshakes=%d\n", i+1, r.Committed, r.Conns, r.Mismatched)
		fails = r.Fails
	}
	return fails
}
