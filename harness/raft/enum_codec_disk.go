//go:build verif
// +build verif

package raft

// C18 — the parts that need a storage directory / the real server path:
//   * value files: (cid,nid) through SetIdentity -> New, (term,vote) through
//     openStorage -> setTerm/setVotedFor -> reopen, for every pair of the
//     integer boundary domain;
//   * pipelined framing: streams of 3 append requests with entries, written
//     with the real conn.writeReq + entry.encode, consumed by the real
//     replyRPC / onAppendEntriesRequest / isEntryBuffered on a real *Raft;
//     plus the same call sequence on streams with boundary field values that
//     a real log cannot hold (decode-only).

import (
	"bufio"
	"bytes"
	"fmt"
	"io"
	"net"
	"os"
	"sort"
	"strconv"
	"strings"
	"sync"
	"time"
)

type c18DiskResult struct {
	ValuePairs         int64
	ValuePairsDistinct int64
	ValueRejected      int64
	ValueRule          string
	Streams            int64
	StreamsDistinct    int64
	StreamEntries      int64
	StreamRule         string
	NotBuffered        int64
	Buffered           int64
	Decodes            int64
	Samples            []interface{}
	Complete           bool
	ScratchErr         string
}

// scratch directories of this process (removed individually after use; the
// memory watchdog removes whatever is left before it exits the process)
var c18ScratchMu sync.Mutex
var c18ScratchDirs = map[string]bool{}

func c18Scratch(prefix string) string {
	d := vkScratch(prefix)
	c18ScratchMu.Lock()
	c18ScratchDirs[d] = true
	c18ScratchMu.Unlock()
	return d
}

func c18Unscratch(dir string) {
	_ = os.RemoveAll(dir)
	c18ScratchMu.Lock()
	delete(c18ScratchDirs, dir)
	c18ScratchMu.Unlock()
}

func c18RemoveAllScratch() {
	c18ScratchMu.Lock()
	for d := range c18ScratchDirs {
		_ = os.RemoveAll(d)
	}
	c18ScratchMu.Unlock()
}

func c18Options() Options {
	opt := DefaultOptions()
	opt.Logger = nil
	opt.LogSegmentSize = 256 * 1024
	return opt
}

func c18CloseStorage(s *storage) {
	if s != nil && s.log != nil {
		_ = s.log.Close()
	}
}

// ---------------------------------------------------------------- value files

type c18ValueOutcome struct {
	rejected bool   // SetIdentity refused a zero id (documented)
	fail     string // "" = read back exactly
}

func c18TryIdentity(cid, nid uint64) (out c18ValueOutcome) {
	dir := c18Scratch("c18id")
	defer c18Unscratch(dir)
	defer func() {
		if p := recover(); p != nil {
			out.fail = fmt.Sprintf("panic: %v", p)
		}
		out.fail = strings.Replace(out.fail, dir, "<dir>", -1)
	}()
	if err := SetIdentity(dir, cid, nid); err != nil {
		if cid == 0 || nid == 0 {
			out.rejected = true
			return
		}
		out.fail = "SetIdentity failed: " + err.Error()
		return
	}
	if cid == 0 || nid == 0 {
		out.fail = "SetIdentity accepted a zero id"
		return
	}
	r, err := New(c18Options(), nil, dir)
	if err != nil {
		out.fail = "SetIdentity succeeded but New on the same directory failed: " + err.Error()
		return
	}
	defer c18CloseStorage(r.storage)
	if r.cid != cid || r.nid != nid {
		out.fail = fmt.Sprintf("wrote cid=%d nid=%d, New read cid=%d nid=%d", cid, nid, r.cid, r.nid)
		return
	}
	// the same identity must be recognised again (reads the file back once more)
	if err := SetIdentity(dir, cid, nid); err != nil {
		out.fail = "second SetIdentity with the same identity failed: " + err.Error()
	}
	return
}

func c18TryTermVote(term, vote uint64) (out c18ValueOutcome) {
	dir := c18Scratch("c18tv")
	defer c18Unscratch(dir)
	var open *storage
	defer func() {
		c18CloseStorage(open)
		if p := recover(); p != nil {
			out.fail = fmt.Sprintf("panic: %v", p)
		}
		out.fail = strings.Replace(out.fail, dir, "<dir>", -1)
	}()
	reopen := func(stage string) bool {
		c18CloseStorage(open)
		open = nil
		s, err := openStorage(dir, c18Options())
		if err != nil {
			out.fail = stage + ": reopening the storage failed: " + err.Error()
			return false
		}
		open = s
		return true
	}
	if !reopen("fresh directory") {
		return
	}
	open.setTerm(term)
	if !reopen(fmt.Sprintf("after setTerm(%d)", term)) {
		return
	}
	if open.term != term || open.votedFor != 0 {
		out.fail = fmt.Sprintf("after setTerm(%d): read back term=%d vote=%d", term, open.term, open.votedFor)
		return
	}
	open.setVotedFor(term, vote)
	if !reopen(fmt.Sprintf("after setVotedFor(%d,%d)", term, vote)) {
		return
	}
	if open.term != term || open.votedFor != vote {
		out.fail = fmt.Sprintf("after setVotedFor(%d,%d): read back term=%d vote=%d", term, vote, open.term, open.votedFor)
	}
	return
}

func c18ValueFiles(run *vkRun, res *c18DiskResult, workers int) {
	type job struct {
		which  string
		i, j   int
		result c18ValueOutcome
	}
	var jobs []*job
	for _, w := range []string{"identity", "termvote"} {
		for i := range c18U64 {
			for j := range c18U64 {
				jobs = append(jobs, &job{which: w, i: i, j: j})
			}
		}
	}
	ch := make(chan *job)
	var wg sync.WaitGroup
	for w := 0; w < workers; w++ {
		wg.Add(1)
		go func() {
			defer wg.Done()
			for j := range ch {
				if j.which == "identity" {
					j.result = c18TryIdentity(c18U64[j.i], c18U64[j.j])
				} else {
					j.result = c18TryTermVote(c18U64[j.i], c18U64[j.j])
				}
			}
		}()
	}
	for _, j := range jobs {
		ch <- j
	}
	close(ch)
	wg.Wait()

	names := map[string][2]string{"identity": {"cid", "nid"}, "termvote": {"term", "vote"}}
	table := map[string]*job{}
	for _, j := range jobs {
		table[fmt.Sprintf("%s/%d/%d", j.which, j.i, j.j)] = j
		res.ValuePairs++
		res.ValuePairsDistinct++
		if j.result.rejected {
			res.ValueRejected++
		}
	}
	failing := func(which string, i, j int) bool {
		x := table[fmt.Sprintf("%s/%d/%d", which, i, j)]
		return x != nil && x.result.fail != ""
	}
	for _, j := range jobs {
		if j.result.fail == "" {
			continue
		}
		// shrink on the table of outcomes: lower each component while the pair still fails
		a, b := j.i, j.j
		for changed := true; changed; {
			changed = false
			for c := 0; c < a; c++ {
				if failing(j.which, c, b) {
					a, changed = c, true
					break
				}
			}
			for c := 0; c < b; c++ {
				if failing(j.which, a, c) {
					b, changed = c, true
					break
				}
			}
		}
		simplest := 0
		if j.which == "identity" {
			simplest = 1 // zero ids are refused by SetIdentity
		}
		var parts string
		if a != simplest {
			parts = names[j.which][0] + "=" + c18U64Desc[a]
		}
		if b != simplest {
			if parts != "" {
				parts += ","
			}
			parts += names[j.which][1] + "=" + c18U64Desc[b]
		}
		if parts == "" {
			parts = "simplest-pair"
		}
		m := table[fmt.Sprintf("%s/%d/%d", j.which, a, b)]
		run.Violation("value:readback:"+parts,
			fmt.Sprintf("%s=%d %s=%d: %s", names[j.which][0], c18U64[a], names[j.which][1], c18U64[b], m.result.fail),
			c18Replay{Kind: "value", Which: j.which, V1: strconv.FormatUint(c18U64[a], 10), V2: strconv.FormatUint(c18U64[b], 10)})
	}
	res.ValueRule = "every pair (25) of {0,1,2^63-1,2^63,2^64-1} for (cid,nid) through SetIdentity -> New -> SetIdentity on a fresh tmpfs directory " +
		"(pairs with a zero id must be refused by SetIdentity) and every pair for (term,vote) through openStorage -> setTerm -> reopen -> setVotedFor -> reopen; the values read back must equal the values written."
	res.Samples = append(res.Samples, map[string]interface{}{"type": "value-file", "which": "termvote", "term": "2^63-1", "vote": "2^64-1",
		"outcome": table["termvote/2/4"].result.fail, "file": "9223372036854775807-18446744073709551615.term"})
}

func c18ReplayValue(rep c18Replay) []string {
	v1, e1 := strconv.ParseUint(rep.V1, 10, 64)
	v2, e2 := strconv.ParseUint(rep.V2, 10, 64)
	if e1 != nil || e2 != nil {
		return []string{"bad replay values"}
	}
	var out c18ValueOutcome
	if rep.Which == "identity" {
		out = c18TryIdentity(v1, v2)
	} else {
		out = c18TryTermVote(v1, v2)
	}
	fmt.Printf("replaying value file %s (%d,%d)\n", rep.Which, v1, v2)
	if out.fail != "" {
		return []string{fmt.Sprintf("value:readback %s (%d,%d) — %s", rep.Which, v1, v2, out.fail)}
	}
	return nil
}

// ---------------------------------------------------------------- pipelined streams

// c18MemConn is a net.Conn over memory: writes are collected, reads hand out
// at most chunk bytes per call (so the bufio.Reader of the server side sees
// partially buffered entries); deadlines are counted.
type c18MemConn struct {
	in        []byte
	pos       int
	chunk     int
	out       bytes.Buffer
	readDLs   int
	writeDLs  int
	readCalls int
}

func (c *c18MemConn) Read(p []byte) (int, error) {
	c.readCalls++
	if c.pos >= len(c.in) {
		return 0, io.EOF
	}
	n := len(p)
	if c.chunk > 0 && n > c.chunk {
		n = c.chunk
	}
	if n > len(c.in)-c.pos {
		n = len(c.in) - c.pos
	}
	copy(p, c.in[c.pos:c.pos+n])
	c.pos += n
	return n, nil
}
func (c *c18MemConn) Write(p []byte) (int, error)      { return c.out.Write(p) }
func (c *c18MemConn) Close() error                     { return nil }
func (c *c18MemConn) LocalAddr() net.Addr              { return nil }
func (c *c18MemConn) RemoteAddr() net.Addr             { return nil }
func (c *c18MemConn) SetDeadline(time.Time) error      { return nil }
func (c *c18MemConn) SetReadDeadline(time.Time) error  { c.readDLs++; return nil }
func (c *c18MemConn) SetWriteDeadline(time.Time) error { c.writeDLs++; return nil }

type c18StreamSpec struct {
	Mode   string `json:"mode"`   // server: real replyRPC on a real *Raft; decode: same call sequence, boundary values
	Chunk  int    `json:"chunk"`  // max bytes per Read of the connection (0: everything at once)
	Counts [3]int `json:"counts"` // entries per request
	Rot    int    `json:"rot"`    // rotation of the value lists
	// Reject[i] (mode server): 0 = request i is acceptable; 1 = stale term, 2 = prevLogIndex beyond the log,
	// 3 = prevLogTerm mismatch: the handler must refuse it and still consume (drain) its entries
	Reject [3]int `json:"reject"`
}

var c18RejectResult = []rpcResult{success, staleTerm, prevEntryNotFound, prevTermMismatch}

var c18DataSizes = []int{0, 1, 300, 5000}

type c18StreamMsg struct {
	req     *appendReq
	entries []*entry
	reject  int
}

func c18StreamData(n int, seed int) []byte {
	b := make([]byte, n)
	for i := range b {
		b[i] = byte(i*13 + seed)
	}
	return b
}

// c18BuildStream returns the three requests with their entries.
func c18BuildStream(sp c18StreamSpec) []c18StreamMsg {
	var msgs []c18StreamMsg
	p := 0
	if sp.Mode == "server" {
		last := uint64(1) // the bootstrap config entry
		for i := 0; i < 3; i++ {
			m := c18StreamMsg{req: &appendReq{req: req{term: 1, src: 2}, prevLogIndex: last, prevLogTerm: 1, ldrCommitIndex: 0, numEntries: uint64(sp.Counts[i])}, reject: sp.Reject[i]}
			switch m.reject {
			case 1:
				m.req.term = 0
			case 2:
				m.req.prevLogIndex = last + 5
			case 3:
				m.req.prevLogTerm = 9
			}
			keep := last
			for k := 0; k < sp.Counts[i]; k++ {
				last++
				var e *entry
				switch p % 3 {
				case 2:
					cfg := Config{Nodes: map[uint64]Node{
						1:    {ID: 1, Addr: "a:1", Voter: true},
						2:    {ID: 2, Addr: "b:2", Voter: true, Data: c18Str[(p+sp.Rot)%3]},
						last: {ID: last, Addr: "c:3", Action: Promote},
					}, Index: last, Term: 1}
					e = cfg.encode()
				case 1:
					e = &entry{index: last, term: 1, typ: entryNop, data: c18StreamData(c18DataSizes[(p+sp.Rot)%4], p)}
				default:
					e = &entry{index: last, term: 1, typ: entryUpdate, data: c18StreamData(c18DataSizes[(p+sp.Rot)%4], p)}
				}
				m.entries = append(m.entries, e)
				p++
			}
			if m.reject != 0 {
				last = keep // refused: the log does not advance
			}
			msgs = append(msgs, m)
		}
		return msgs
	}
	u := func(k int) uint64 { return c18U64[(k+sp.Rot)%len(c18U64)] }
	for i := 0; i < 3; i++ {
		m := c18StreamMsg{req: &appendReq{req: req{term: u(i), src: u(i + 1)}, prevLogIndex: u(i + 2), prevLogTerm: u(i + 3),
			ldrCommitIndex: u(i + 4), numEntries: uint64(sp.Counts[i])}}
		for k := 0; k < sp.Counts[i]; k++ {
			var data []byte
			if sz := c18DataSizes[(p+sp.Rot)%4]; sz > 0 || p%2 == 0 {
				data = c18StreamData(sz, p)
			}
			m.entries = append(m.entries, &entry{index: u(p), term: u(2*p + 1), typ: entryType(c18EntryTypes[(p+sp.Rot)%len(c18EntryTypes)]), data: data})
			p++
		}
		msgs = append(msgs, m)
	}
	return msgs
}

// c18WriteStream writes the messages the way replication does: conn.writeReq, then the stored entry encodings straight to the connection.
func c18WriteStream(msgs []c18StreamMsg) ([]byte, error) {
	mc := &c18MemConn{}
	c := &conn{rwc: mc, bufr: bufio.NewReader(mc), bufw: bufio.NewWriter(mc)}
	for _, m := range msgs {
		r := *m.req
		if err := c.writeReq(&r, time.Now().Add(time.Hour)); err != nil {
			return nil, err
		}
		var bufs net.Buffers
		for _, e := range m.entries {
			w := new(bytes.Buffer)
			if err := e.encode(w); err != nil {
				return nil, err
			}
			bufs = append(bufs, w.Bytes())
		}
		if len(bufs) > 0 {
			if _, err := bufs.WriteTo(c.rwc); err != nil {
				return nil, err
			}
		}
	}
	return mc.out.Bytes(), nil
}

func c18ReqCanon(m *appendReq) string {
	return fmt.Sprintf("appendReq{%d,%d,%d,%d,%d}", m.term, m.src, m.prevLogIndex, m.prevLogTerm, m.ldrCommitIndex)
}

type c18StreamOutcome struct {
	fail        string
	entries     int
	notBuffered int
	decodes     int
	bytes       int
}

func c18RunStream(sp c18StreamSpec) (out c18StreamOutcome) {
	defer func() {
		if p := recover(); p != nil {
			out.fail = fmt.Sprintf("panic: %v", p)
		}
	}()
	msgs := c18BuildStream(sp)
	// every entry must be well-formed per the reference layout before the server path sees it
	for i, m := range msgs {
		for k, e := range m.entries {
			w := new(bytes.Buffer)
			if err := e.encode(w); err != nil {
				out.fail = fmt.Sprintf("request %d entry %d: encode failed: %v", i, k, err)
				return
			}
			cur := &c18Cur{b: w.Bytes()}
			if e.typ == entryConfig && sp.Mode == "server" {
				cur.config("config entry")
			} else {
				cur.entry("entry")
			}
			if cur.err == "" && cur.pos != len(cur.b) {
				cur.fail("entry layout ends early")
			}
			if cur.err != "" {
				out.fail = fmt.Sprintf("request %d entry %d: encoding not well-formed per the reference layout: %s", i, k, cur.err)
				return
			}
		}
	}
	stream, err := c18WriteStream(msgs)
	if err != nil {
		out.fail = "writing the stream failed: " + err.Error()
		return
	}
	out.bytes = len(stream)
	mc := &c18MemConn{in: stream, chunk: sp.Chunk}
	c := &conn{rwc: mc, bufr: bufio.NewReader(mc), bufw: bufio.NewWriter(mc)}
	for _, m := range msgs {
		out.entries += len(m.entries)
	}

	if sp.Mode == "decode" {
		// the call sequence of server.handleConn + replyRPC + onAppendEntriesRequest, without a log behind it
		for i, m := range msgs {
			b, err := c.bufr.ReadByte()
			if err != nil || !rpcType(b).isValid() || rpcType(b) != rpcAppendEntries {
				out.fail = fmt.Sprintf("request %d: type byte %d err=%v", i, b, err)
				return
			}
			rq := rpcType(b).createReq()
			out.decodes++
			if err := rq.decode(c.bufr); err != nil {
				out.fail = fmt.Sprintf("request %d: decode failed: %v", i, err)
				return
			}
			got := rq.(*appendReq)
			if c18ReqCanon(got) != c18ReqCanon(m.req) || got.numEntries != m.req.numEntries {
				out.fail = fmt.Sprintf("request %d: sent %s n=%d, decoded %s n=%d", i, c18ReqCanon(m.req), m.req.numEntries, c18ReqCanon(got), got.numEntries)
				return
			}
			for k := 0; got.numEntries > 0; k++ {
				got.numEntries--
				if !isEntryBuffered(c.bufr) {
					out.notBuffered++
				}
				ne := &entry{}
				out.decodes++
				if err := ne.decode(c.bufr); err != nil {
					out.fail = fmt.Sprintf("request %d entry %d: decode failed: %v", i, k, err)
					return
				}
				if c18CanonEntry(ne) != c18CanonEntry(m.entries[k]) {
					out.fail = fmt.Sprintf("request %d entry %d: sent %s, decoded %s", i, k, c18CanonEntry(m.entries[k]), c18CanonEntry(ne))
					return
				}
			}
		}
	} else {
		dir := c18Scratch("c18pipe")
		defer c18Unscratch(dir)
		if err := SetIdentity(dir, 7, 1); err != nil {
			out.fail = "SetIdentity: " + err.Error()
			return
		}
		r, err := New(c18Options(), nil, dir)
		if err != nil {
			out.fail = "New: " + err.Error()
			return
		}
		defer c18CloseStorage(r.storage)
		boot := Config{Nodes: map[uint64]Node{1: {ID: 1, Addr: "a:1", Voter: true}, 2: {ID: 2, Addr: "b:2", Voter: true}}, Index: 1, Term: 1}
		if err := r.storage.bootstrap(boot); err != nil {
			out.fail = "bootstrap: " + err.Error()
			return
		}
		r.changeConfig(boot)
		last := uint64(1)
		for i, m := range msgs {
			// server.handleConn: one type byte, request created by type, body read by replyRPC (fromLeader)
			b, err := c.bufr.ReadByte()
			if err != nil || !rpcType(b).isValid() || rpcType(b) != rpcAppendEntries {
				out.fail = fmt.Sprintf("request %d: type byte %d err=%v (stream out of frame)", i, b, err)
				return
			}
			call := &rpc{req: rpcType(b).createReq(), conn: c, done: make(chan struct{})}
			dl := mc.readDLs
			r.replyRPC(call)
			out.decodes += 1 + len(m.entries)
			out.notBuffered += mc.readDLs - dl - 1
			if call.readErr != nil {
				out.fail = fmt.Sprintf("request %d: read error %v", i, call.readErr)
				return
			}
			got := call.req.(*appendReq)
			if c18ReqCanon(got) != c18ReqCanon(m.req) || got.numEntries != 0 {
				out.fail = fmt.Sprintf("request %d: sent %s, handler saw %s (entries left %d)", i, c18ReqCanon(m.req), c18ReqCanon(got), got.numEntries)
				return
			}
			if m.reject == 0 {
				last += uint64(len(m.entries))
			}
			ar, ok := call.resp.(*appendResp)
			if !ok || ar.result != c18RejectResult[m.reject] || ar.lastLogIndex != last {
				out.fail = fmt.Sprintf("request %d: response %T result=%d err=%v, want result=%d lastLogIndex=%d", i, call.resp, call.resp.getResult(), call.resp.getErr(), c18RejectResult[m.reject], last)
				return
			}
		}
		if r.lastLogIndex != last {
			out.fail = fmt.Sprintf("log ends at %d, want %d", r.lastLogIndex, last)
			return
		}
		idx := uint64(1)
		for i, m := range msgs {
			if m.reject != 0 {
				continue
			}
			for k, e := range m.entries {
				idx++
				ge := &entry{}
				if err := r.storage.getEntry(idx, ge); err != nil {
					out.fail = fmt.Sprintf("request %d entry %d: not in the log: %v", i, k, err)
					return
				}
				if c18CanonEntry(ge) != c18CanonEntry(e) {
					out.fail = fmt.Sprintf("request %d entry %d: sent %s, stored %s", i, k, c18CanonEntry(e), c18CanonEntry(ge))
					return
				}
			}
		}
	}
	if c.bufr.Buffered() != 0 || mc.pos != len(mc.in) {
		out.fail = fmt.Sprintf("stream of %d bytes not consumed exactly: %d buffered, %d unread", len(stream), c.bufr.Buffered(), len(mc.in)-mc.pos)
		return
	}
	if _, err := c.bufr.ReadByte(); err != io.EOF {
		out.fail = fmt.Sprintf("after the third request the stream is not at EOF: %v", err)
	}
	return
}

func c18StreamSpecs(thorough bool) []c18StreamSpec {
	chunks := []int{1, 20, 21, 22, 64, 4096, 0}
	maxCount := 2
	if thorough {
		maxCount = 3
	}
	var specs []c18StreamSpec
	for _, mode := range []string{"server", "decode"} {
		rots := 4
		if mode == "decode" {
			rots = 5
		}
		for a := 0; a <= maxCount; a++ {
			for b := 0; b <= maxCount; b++ {
				for c := 0; c <= maxCount; c++ {
					for rot := 0; rot < rots; rot++ {
						for _, ck := range chunks {
							specs = append(specs, c18StreamSpec{Mode: mode, Chunk: ck, Counts: [3]int{a, b, c}, Rot: rot})
							if mode != "server" {
								continue
							}
							for pos := 0; pos < 3; pos++ { // one refused request per stream, at every position, of every kind
								for kind := 1; kind <= 3; kind++ {
									sp := c18StreamSpec{Mode: mode, Chunk: ck, Counts: [3]int{a, b, c}, Rot: rot}
									sp.Reject[pos] = kind
									specs = append(specs, sp)
								}
							}
						}
					}
				}
			}
		}
	}
	return specs
}

func c18Pipeline(run *vkRun, res *c18DiskResult, thorough bool, workers int) {
	specs := c18StreamSpecs(thorough)
	outs := make([]c18StreamOutcome, len(specs))
	ch := make(chan int)
	var wg sync.WaitGroup
	for w := 0; w < workers; w++ {
		wg.Add(1)
		go func() {
			defer wg.Done()
			for i := range ch {
				outs[i] = c18RunStream(specs[i])
			}
		}()
	}
	for i := range specs {
		ch <- i
	}
	close(ch)
	wg.Wait()

	type fk struct {
		key  string
		spec c18StreamSpec
		desc string
	}
	var fails []fk
	for i, o := range outs {
		res.Streams++
		res.StreamsDistinct++
		res.StreamEntries += int64(o.entries)
		res.NotBuffered += int64(o.notBuffered)
		res.Buffered += int64(o.entries - o.notBuffered)
		res.Decodes += int64(o.decodes)
		if o.fail != "" {
			sp := specs[i]
			// minimal witness: fewest entries first, then smallest rotation, then enumeration order
			fails = append(fails, fk{spec: sp, desc: o.fail})
		}
	}
	sort.SliceStable(fails, func(i, j int) bool {
		a, b := fails[i].spec, fails[j].spec
		if a.Mode != b.Mode {
			return a.Mode < b.Mode
		}
		sa, sb := a.Counts[0]+a.Counts[1]+a.Counts[2], b.Counts[0]+b.Counts[1]+b.Counts[2]
		if sa != sb {
			return sa < sb
		}
		return a.Rot < b.Rot
	})
	seenMode := map[string]bool{}
	for _, f := range fails {
		key := "pipeline:" + f.spec.Mode + ":stream-misframed"
		if !seenMode[f.spec.Mode] {
			seenMode[f.spec.Mode] = true
			sp := f.spec
			run.Violation(key, fmt.Sprintf("counts=%v reject=%v rot=%d chunk=%d: %s", sp.Counts, sp.Reject, sp.Rot, sp.Chunk, f.desc), c18Replay{Kind: "pipeline", Stream: &sp})
		} else {
			run.Violation(key, "", nil)
		}
	}
	res.StreamRule = fmt.Sprintf("streams of 3 appendReq with (n1,n2,n3) entries for every (n1,n2,n3) in {0..%d}^3 x every rotation of the data sizes {0,1,300,5000} / entry kinds (update, nop, config) "+
		"x read granularities {1,20,21,22,64,4096,all} bytes; written with conn.writeReq + entry.encode, consumed (mode server) by the real replyRPC/onAppendEntriesRequest/isEntryBuffered on a *Raft from New "+
		"on a bootstrapped tmpfs directory, all three acceptable or exactly one (each position) refused as stale term / missing previous entry / previous term mismatch so that its entries must be drained: the 3 requests, the 3 response codes and lastLogIndex, the stored entries and the exact end of stream are compared; (mode decode) the same call sequence without a log for requests/entries carrying the integer boundary values. ", map[bool]int{false: 2, true: 3}[thorough])
	if len(specs) > 0 {
		sp := specs[len(specs)/3]
		o := outs[len(specs)/3]
		res.Samples = append(res.Samples, map[string]interface{}{"type": "pipelined-stream", "spec": sp, "bytes": o.bytes, "entries": o.entries,
			"entries_not_fully_buffered": o.notBuffered, "outcome": o.fail})
	}
	res.Complete = true
}

func c18ReplayStream(rep c18Replay) []string {
	if rep.Stream == nil {
		return []string{"no stream spec in replay"}
	}
	fmt.Printf("replaying pipelined stream %+v\n", *rep.Stream)
	o := c18RunStream(*rep.Stream)
	if o.fail != "" {
		return []string{"pipeline:" + rep.Stream.Mode + ":stream-misframed — " + o.fail}
	}
	return nil
}
