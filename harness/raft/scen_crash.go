//go:build verif
// +build verif

package raft

import (
	"fmt"
	"time"
)

// Check C10: for every storage-mutating transition explored in the election,
// replication, membership and snapshot scenarios and every storage point
// passed inside it, the future in which the node died exactly there (CrashAt,
// see world.crashAt) is explored: restart with the real New/Serve on the
// directory image, restart oracles, then the usual ledger oracles on the
// continuation.

func crashScenario(base *simScenario, dev int) *simScenario {
	sc := cloneScenario(base)
	sc.Name = "crashat-" + base.Name
	sc.Menu.CrashAt = true
	sc.Menu.Crashes = true
	sc.Menu.OrderCost = true
	sc.Menu.Dups = false
	sc.Menu.Cuts = false
	sc.Crashes = 1
	sc.MaxDev = dev
	return sc
}

func crashScenarios(tier string) []*simScenario {
	dev := 2
	if tier == "thorough" {
		dev = 3
	}
	bases := []*simScenario{
		scenElect([]uint64{1, 2, 3}, nil, 3, dev, 1),
		scenRepl(replSeedByName("leader"), dev, true, 2, 1, 3),
		scenRepl(replSeedByName("divergent"), dev, true, 1, 1, 4),
		scenMember(memberSeedByName("2v+nv"), dev, 1, 0, true, nil, 1),
		scenSnap(snapSeeds[snapSeedIndex("full")], dev, true, true, 1),
		scenSnap(snapSeeds[snapSeedIndex("lagging")], dev, true, true, 1),
		scenSnap(snapSeeds[snapSeedIndex("divergent-long")], dev, true, true, 0),
	}
	var out []*simScenario
	// a voter between two candidates dies at every storage point of its grant (candidate id 2, and 3 = the term)
	for _, c := range []int{2, 3} {
		b := scenElectVotesOnly(fmt.Sprintf("revote%d", c), electSeedRevote(c), 4, dev)
		out = append(out, crashScenario(b, dev))
	}
	for _, b := range bases {
		out = append(out, crashScenario(b, dev+1))
	}
	// bootstrap: nodes that hold only their identity; the cluster is bootstrapped through ChangeConfig
	out = append(out, &simScenario{
		Name:    "crashat-bootstrap",
		Opt:     worldOpt{Nodes: 2, EagerFSM: true, EagerLU: true, EagerConnect: true},
		Menu:    simMenu{OrderCost: true, CrashAt: true, Crashes: true, Timeouts: true, MaxTerm: 3, Admin: []string{"bootstrap"}, MaxAdmin: 2},
		MaxDev:  dev + 2,
		Crashes: 1,
	})
	return out
}

func init() {
	for _, sc := range crashScenarios("quick") {
		simScenarios[sc.Name] = sc
	}
	c10 := &simCheckSpec{Prop: "C10", Oracles: []string{"crash", "info", "leader", "commit", "match", "apply", "alive", "view"},
		Scenarios: crashScenarios,
		Budget: func(tier string) time.Duration {
			if tier == "thorough" {
				return 40 * time.Minute
			}
			return 270 * time.Second
		},
		MustReach: []string{"restarts"},
		Assume: []string{
			"process-crash model of the property: a crash image is a byte copy of the storage directory taken at a hook point inside the handler (completed file operations survive; log entries appended after the last flush are invisible after reopen because the segment header still holds the old count)",
			"the stale `lock` file a killed process leaves behind is removed by whoever restarts the node (the image copy omits it); the property's observation point is New(), which does not take the lock",
			"everything the dying node sent or answered inside the transition in which it died is discarded; replies and requests of earlier transitions stay in flight",
		},
	}
	vkChecks["C10"] = func(args []string) int { return runSimCheck(c10, args) }
}
