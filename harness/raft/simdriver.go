//go:build verif
// +build verif

package raft

// Replication driver (DESIGN.md 2.3): the skeleton of replication.runLoop /
// replicate, advanced by explorer events.  Every request byte, every
// nextIndex/matchIndex update, every notification to the leader and every
// log/snapshot read is produced by the real methods of the real *replication;
// only the order of the calls is the driver's, and the explorer enumerates it.

import (
	"fmt"
	"runtime"
	"sort"
	"strings"
	"time"

	"github.com/santhosh-tekuri/raft/log"
)

const (
	drvProbe = iota
	drvPipe
)

type drvReq struct {
	lastIndex uint64
	probe     bool
}

type drvHelperResult struct {
	kind     string
	c        *conn
	err      error
	panicked interface{}
}

type driver struct {
	n    *simNode
	fid  uint64
	repl *replication
	req  *appendReq

	c           *conn
	sc          *simConn
	phase       int
	outstanding []drvReq
	draining    bool // pipeline closed after a non-success response: remaining responses are read and dropped
	pipeEnd     bool // writer hit log.ErrNotFound: no more sends until outstanding responses are consumed
	failures    uint64
	lastErr     error
	stopped     bool

	updCh  chan replUpdate // substituted for repl.replUpdateCh
	helper chan drvHelperResult
	hkind  string
}

func newDriver(n *simNode, r *replication, req *appendReq) *driver {
	d := &driver{n: n, fid: r.status.id, repl: r, req: req, updCh: make(chan replUpdate, 1024)}
	r.replUpdateCh = d.updCh
	return d
}

func sortedDriverIDs(m map[uint64]*driver) []uint64 {
	ids := make([]uint64, 0, len(m))
	for id := range m {
		ids = append(ids, id)
	}
	sort.Slice(ids, func(i, j int) bool { return ids[i] < ids[j] })
	return ids
}

func (d *driver) live() bool {
	if d.stopped {
		return false
	}
	if isClosed(d.repl.stopCh) {
		d.stop()
		return false
	}
	return true
}

func (d *driver) stop() {
	if d.stopped {
		return
	}
	d.stopped = true
	if d.c != nil && d.c.rwc != nil {
		_ = d.c.rwc.Close()
	}
	d.c, d.sc = nil, nil
	d.outstanding = nil
}

func (d *driver) deadline() time.Time { return time.Now().Add(time.Hour) }

// poll is the non-blocking form of checkLeaderUpdate.
func (d *driver) poll() bool {
	_, err := d.repl.checkLeaderUpdate(d.repl.stopCh, d.req, false)
	if err == errStop {
		d.stop()
		return false
	}
	return true
}

// fail mirrors what runLoop does when replicate returns an error.
func (d *driver) fail(err error) {
	if err == errStop {
		d.stop()
		return
	}
	if _, ok := err.(OpError); ok {
		// runLoop panics; its deferred recover reports the error to the leader
		d.repl.notifyLdr(err)
		d.stop()
		return
	}
	if re, ok := err.(remoteError); ok {
		err = re.error
	}
	d.failures++
	if d.c != nil && d.c.rwc != nil {
		_ = d.c.rwc.Close()
	}
	d.c, d.sc = nil, nil
	d.outstanding, d.draining, d.pipeEnd = nil, false, false
	d.lastErr = err
	if d.failures == 1 {
		d.repl.notifyNoContact(err)
	}
}

// pendingLeaderUpdate tells whether the leader pushed a view/commit update the
// stream has not looked at yet.
func (d *driver) pendingLeaderUpdate() bool { return len(d.repl.leaderUpdateCh) > 0 }

// ---- enabled events ---------------------------------------------------

func (d *driver) canConnect() bool {
	if !d.live() || d.c != nil || d.helper != nil {
		return false
	}
	w := d.n.w
	reach := w.reachable(d.n.idx, int(d.fid-1))
	// a retry against an unreachable node after the first failure changes nothing,
	// except that every retry looks at the leader's updates first (new log view)
	return reach || d.failures == 0 || d.pendingLeaderUpdate()
}

func (d *driver) canSend() (bool, string) {
	if !d.live() || d.c == nil || d.helper != nil || d.draining || d.pipeEnd {
		return false, ""
	}
	r := d.repl
	if d.phase == drvProbe {
		if len(d.outstanding) == 0 {
			return true, "probe"
		}
		return false, ""
	}
	if len(d.outstanding) >= d.n.w.opt.PipeK {
		return false, ""
	}
	if r.nextIndex <= r.ldrLastIndex {
		return true, "entries"
	}
	if d.pendingLeaderUpdate() {
		return true, "update"
	}
	return false, ""
}

func (d *driver) canHeartbeat() bool {
	if !d.live() || d.c == nil || d.helper != nil || d.draining || d.pipeEnd || d.phase != drvPipe {
		return false
	}
	r := d.repl
	return d.n.w.opt.Heartbeats && r.node.Voter && len(d.outstanding) == 0 && r.nextIndex > r.ldrLastIndex && !d.pendingLeaderUpdate()
}

func (d *driver) canRecv() bool {
	if !d.live() || d.c == nil || d.helper != nil || len(d.outstanding) == 0 {
		return false
	}
	return d.respAvailable()
}

func (d *driver) respAvailable() bool {
	w := d.n.w
	w.mu.Lock()
	defer w.mu.Unlock()
	return d.c.bufr.Buffered() > 0 || d.sc.s2c.Len() > 0
}

// connLost tells that the connection was closed under the driver (peer went
// down, drop event) - the next read or write fails.
func (d *driver) connLost() bool {
	if !d.live() || d.c == nil || d.helper != nil {
		return false
	}
	w := d.n.w
	w.mu.Lock()
	defer w.mu.Unlock()
	return d.sc.closed && d.c.bufr.Buffered() == 0 && d.sc.s2c.Len() == 0
}

// ---- events -------------------------------------------------------------

// connect dials and performs the identity handshake through the real
// connPool.getConn in a helper goroutine that parks in the handshake read.
func (d *driver) connect() {
	if d.failures > 0 {
		if !d.poll() {
			return
		}
	}
	d.startHelper("connect", func() drvHelperResult {
		c, err := d.repl.connPool.getConn(d.deadline())
		return drvHelperResult{kind: "connect", c: c, err: err}
	})
}

func (d *driver) startHelper(kind string, fn func() drvHelperResult) {
	w := d.n.w
	ch := make(chan drvHelperResult, 1)
	d.helper, d.hkind = ch, kind
	w.mu.Lock()
	w.busy++
	w.mu.Unlock()
	go func() {
		var res drvHelperResult
		func() {
			defer func() {
				if v := recover(); v != nil {
					res = drvHelperResult{kind: kind, panicked: v}
				}
			}()
			res = fn()
		}()
		ch <- res
		w.mu.Lock()
		w.busy--
		w.cond.Broadcast()
		w.mu.Unlock()
	}()
}

// collect processes the result of a finished helper.  It reports whether it
// made progress.
func (d *driver) collect() (bool, error) {
	if d.helper == nil {
		return false, nil
	}
	var res drvHelperResult
	select {
	case res = <-d.helper:
	default:
		return false, nil
	}
	d.helper = nil
	if res.panicked != nil {
		d.guard(res.kind, func() { panic(res.panicked) })
		return true, nil
	}
	if d.stopped || isClosed(d.repl.stopCh) {
		if res.c != nil && res.c.rwc != nil {
			_ = res.c.rwc.Close()
		}
		d.stop()
		return true, nil
	}
	switch res.kind {
	case "connect":
		if res.err != nil {
			d.failures++
			d.lastErr = res.err
			if d.failures == 1 {
				d.repl.notifyNoContact(res.err)
			}
			return true, nil
		}
		d.c = res.c
		d.sc = res.c.rwc.(*simEnd).c
		d.sc.purpose = "repl"
		d.phase = drvProbe
		if d.failures > 0 {
			d.failures = 0
			d.repl.notifyNoContact(nil)
			d.poll()
		}
	case "snap":
		if res.err != nil {
			d.fail(res.err)
			return true, nil
		}
		// replicate: "continue" -> find matchIndex again
		d.phase = drvProbe
	}
	return true, nil
}

func (d *driver) snapshot() {
	c := d.c
	d.n.w.led.onLeaderAct(d.n, d.req.term, "installSnap")
	d.startHelper("snap", func() drvHelperResult {
		err := d.repl.sendInstallSnapReq(c, d.req)
		return drvHelperResult{kind: "snap", err: err}
	})
}

// send performs one write of the stream (probe, entries, or an empty append
// that carries a leader update / heartbeat).
func (d *driver) send(heartbeat bool) {
	r := d.repl
	if d.phase == drvProbe {
		err := r.writeAppendEntriesReq(d.c, d.req, false)
		if err == log.ErrNotFound {
			d.snapshot()
			return
		}
		if err != nil {
			d.fail(err)
			return
		}
		d.n.w.led.onLeaderAct(d.n, d.req.term, "append")
		d.outstanding = append(d.outstanding, drvReq{lastIndex: r.nextIndex - 1, probe: true})
		return
	}
	// pipeline writer: poll for a leader update, then write
	if !d.poll() {
		return
	}
	err := r.writeAppendEntriesReq(d.c, d.req, true)
	if err == log.ErrNotFound {
		d.pipeEnd = true
		d.maybeLeavePipe()
		return
	}
	if err != nil {
		d.fail(err)
		return
	}
	d.n.w.led.onLeaderAct(d.n, d.req.term, "append")
	d.outstanding = append(d.outstanding, drvReq{lastIndex: r.nextIndex - 1})
}

func (d *driver) maybeLeavePipe() {
	if len(d.outstanding) > 0 {
		return
	}
	if d.draining || d.pipeEnd {
		d.draining, d.pipeEnd = false, false
		d.phase = drvProbe
	}
}

// recv reads the response of the oldest outstanding request.
func (d *driver) recv() {
	r := d.repl
	resp := &appendResp{}
	if err := d.c.readResp(resp, d.deadline()); err != nil {
		d.fail(err)
		return
	}
	o := d.outstanding[0]
	d.outstanding = d.outstanding[1:]
	if d.draining {
		d.maybeLeavePipe()
		return
	}
	if d.phase == drvProbe {
		if err := r.onAppendEntriesResp(resp, r.nextIndex-1); err != nil {
			d.fail(err)
			return
		}
		if !d.poll() {
			return
		}
		if r.matchIndex+1 == r.nextIndex {
			if r.nextIndex < r.ldrLastIndex && !r.log.Contains(r.nextIndex) {
				d.snapshot()
				return
			}
			d.phase = drvPipe
		}
		return
	}
	if resp.result == success {
		_ = r.onAppendEntriesResp(resp, o.lastIndex)
		d.maybeLeavePipe()
		return
	}
	// pipeline ends
	if resp.result == staleTerm {
		// replicate drains with a timeout, then notifies the leader of the new
		// term and stops; the drain only serves connection reuse
		d.fail(r.onAppendEntriesResp(resp, o.lastIndex))
		return
	}
	// remaining responses are drained, then the match index is searched again
	d.draining = true
	d.maybeLeavePipe()
}

// guard runs one driver event.  A panic raised by the real replication
// methods is what replication.runLoop's deferred recover sees in production:
// OpErrors are reported to the leader, runtime errors / assertion failures are
// re-panicked by recoverErr and terminate the process.
func (d *driver) guard(what string, fn func()) {
	defer func() {
		if v := recover(); v != nil {
			frames := simPanicFrames()
			var fatal bool
			func() {
				defer func() {
					if recover() != nil {
						fatal = true
					}
				}()
				err := recoverErr(v)
				d.repl.notifyLdr(err)
			}()
			if fatal {
				d.n.w.led.violate("alive", "replication-goroutine-panic:"+simErrClass(fmt.Errorf("%v", v)), fmt.Sprintf("replication of leader %d to node %d (%s): %v - recoverErr re-panics: the process terminates; stack: %s", d.n.id, d.fid, what, v, frames))
			}
			d.stop()
		}
	}()
	fn()
}

// simPanicFrames condenses the stack of the panic being recovered: the
// function names between runtime.panic and the guard, innermost first.
func simPanicFrames() string {
	buf := make([]byte, 1<<16)
	buf = buf[:runtime.Stack(buf, false)]
	var out []string
	seenPanic := false
	lines := strings.Split(string(buf), "\n")
	for i := 0; i+1 < len(lines); i++ {
		l := lines[i]
		if strings.HasPrefix(l, "panic(") {
			seenPanic = true
			continue
		}
		if !seenPanic || strings.HasPrefix(l, "\t") || strings.HasPrefix(l, "runtime.") {
			continue
		}
		fn := l
		if j := strings.LastIndex(fn, "("); j > 0 {
			fn = fn[:j]
		}
		fn = strings.TrimPrefix(fn, "github.com/santhosh-tekuri/raft")
		loc := strings.TrimSpace(lines[i+1])
		if j := strings.Index(loc, " +0x"); j > 0 {
			loc = loc[:j]
		}
		if j := strings.LastIndex(loc, "/"); j >= 0 {
			loc = loc[j+1:]
		}
		out = append(out, fn+"@"+loc)
		if strings.Contains(fn, "guard") || len(out) >= 8 {
			break
		}
	}
	return strings.Join(out, " < ")
}

// connFail is the deviation "the connection breaks under the stream".
func (d *driver) connFail(err error) {
	d.fail(err)
}

func (w *world) reachable(a, b int) bool {
	w.mu.Lock()
	defer w.mu.Unlock()
	if b < 0 || b >= len(w.nodes) {
		return false
	}
	return w.nodes[b].up && !w.linkBlockedLocked(a, b)
}
