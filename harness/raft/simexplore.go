//go:build verif
// +build verif

package raft

// Explicit-state search of the E-SIM explorer: a coordinator owns the
// frontier and the seen-set and feeds event histories to worker subprocesses;
// a worker replays a history on a fresh world of real nodes and executes one
// more event (successor = replay of shortest path + one event).

import (
	"bufio"

	"github.com/santhosh-tekuri/raft/log"

	"encoding/json"
	"errors"
	"fmt"
	"io"
	"os"
	"os/exec"
	"runtime"
	"sort"
	"strings"
	"sync"
	"time"
)

// simScenario describes one closed system to explore.
type simScenario struct {
	Name    string   `json:"name"`
	Opt     worldOpt `json:"opt"`
	Menu    simMenu  `json:"menu"`
	Script  []string `json:"script"`  // prefix that builds the seed state (see runScript)
	MaxDev  int      `json:"maxDev"`  // deviation bound
	Oracles []string `json:"oracles"` // optional oracles to enable in the ledger (durable, ...)
	Crashes int      `json:"crashes"` // crash budget
	Final   string   `json:"final"`   // check evaluated at every explored state: "", "shutdown", "progress"
}

// ------------------------------------------------------------- worker side

type simState struct {
	w    *world
	sc   *simScenario
	cnt  simCounters
	dev  int
	hist []simEvent

	skipDC  bool // script: leave "peer disconnected" notifications pending
	exclude int  // fair continuation: index of the node that stays away (-1: none)
}

func newSimState(sc *simScenario) (*simState, error) {
	w := newWorld(sc.Opt)
	for _, o := range sc.Oracles {
		w.led.oracles[o] = true
	}
	s := &simState{w: w, sc: sc, exclude: -1}
	s.cnt.Crashes = sc.Crashes
	if err := w.boot(); err != nil {
		return s, err
	}
	w.led.beforeEvent(simEvent{})
	w.led.afterEvent(simEvent{})
	noRepl := w.opt.NoRepl
	w.opt.NoRepl = false // the seed script runs with replication; the restriction applies to the exploration
	err := s.runScript(sc.Script)
	w.opt.NoRepl = noRepl
	if err != nil {
		return s, fmt.Errorf("script: %v", err)
	}
	return s, nil
}

func (s *simState) close() {
	s.w.untrackAll()
	s.w.close()
}

func (s *simState) count(e simEvent) {
	switch e.K {
	case "CL":
		switch e.S {
		case "update":
			s.cnt.Updates++
		case "batch2":
			s.cnt.Updates += 2
		case "update+read", "read+update":
			s.cnt.Updates++
			s.cnt.Client++
		default:
			s.cnt.Client++
		}
	case "AD":
		s.cnt.Admin++
	case "SN":
		s.cnt.Snaps++
	case "K", "SD", "KA":
		s.cnt.Crashes--
	}
}

func (s *simState) apply(e simEvent, free bool) error {
	if err := s.w.apply(e); err != nil {
		return err
	}
	s.count(e)
	if !free {
		s.dev += e.Dev
	}
	s.hist = append(s.hist, e)
	return nil
}

func (s *simState) enabled() []simEvent {
	ev := s.w.enabled(&s.sc.Menu, s.cnt)
	if s.sc.Menu.OrderCost {
		first := true
		for i := range ev {
			if ev[i].Dev == 0 {
				if !first {
					ev[i].Dev = 1
				}
				first = false
			}
		}
	}
	out := ev[:0]
	for _, e := range ev {
		if s.dev+e.Dev <= s.sc.MaxDev {
			out = append(out, e)
		}
	}
	return out
}

func (s *simState) hash() string { return canonHash(s.w.canon(s.cnt)) }

// runScript executes the scripted prefix.  Commands:
//
//	T:<n>          election/quorum timeout at node n (1-based)
//	run            run all free events in canonical order until none is left
//	run:<k>        same, at most k events
//	update:<n>     client update submitted to node n
//	snap:<n>       TakeSnapshot on node n
//	admin:<n>:<op> admin operation on node n
//	crash:<n> restart:<n> block:<a>:<b> heal:<a>:<b>
//	ev:<json>      literal event
func (s *simState) runScript(script []string) error {
	w := s.w
	for _, cmd := range script {
		parts := strings.SplitN(cmd, ":", 3)
		num := func(i int) int {
			v := 0
			if i < len(parts) {
				fmt.Sscanf(parts[i], "%d", &v)
			}
			return v
		}
		var err error
		switch parts[0] {
		case "T":
			err = s.apply(simEvent{K: "T", N: num(1) - 1, S: "main"}, true)
		case "run", "runnodc":
			limit := 10000
			if len(parts) > 1 {
				limit = num(1)
			}
			s.skipDC = parts[0] == "runnodc"
			err = s.runFree(limit, nil)
			s.skipDC = false
		case "elect":
			// election timeout at node n, then only vote requests / replies are delivered
			// (no replication step runs) until n leads or nothing of that kind is left
			n := w.nodes[num(1)-1]
			if err = s.apply(simEvent{K: "T", N: n.idx, S: "main"}, true); err != nil {
				break
			}
			save := w.opt.NoRepl
			w.opt.NoRepl = true
			for i := 0; i < 200 && err == nil && !(n.up && n.r.state == Leader); i++ {
				ev := w.enabled(&simMenu{}, s.cnt)
				var pick *simEvent
				for j := range ev {
					e := ev[j]
					if e.Dev != 0 {
						continue
					}
					if e.K == "R" {
						pick = &ev[j]
						break
					}
					if e.K == "D" {
						if c := w.connByKey(e.C); c != nil {
							if p := c.peekRequest(); p != nil && p.typ == rpcVote {
								pick = &ev[j]
								break
							}
						}
					}
				}
				if pick == nil {
					break
				}
				err = s.apply(*pick, true)
			}
			w.opt.NoRepl = save
		case "update":
			err = s.apply(simEvent{K: "CL", N: num(1) - 1, S: "update"}, true)
			s.cnt.Updates-- // scripted operations do not consume the menu budget
		case "snap":
			err = s.apply(simEvent{K: "SN", N: num(1) - 1}, true)
			s.cnt.Snaps--
		case "admin":
			err = s.apply(simEvent{K: "AD", N: num(1) - 1, S: parts[2]}, true)
			s.cnt.Admin--
		case "crash":
			err = s.apply(simEvent{K: "K", N: num(1) - 1}, true)
			s.cnt.Crashes++
		case "restart":
			err = s.apply(simEvent{K: "S", N: num(1) - 1}, true)
		case "block":
			err = s.apply(simEvent{K: "PB", N: num(1) - 1, A: num(2) - 1}, true)
		case "heal":
			err = s.apply(simEvent{K: "PH", N: num(1) - 1, A: num(2) - 1}, true)
		case "deliver":
			// deliver the oldest request in flight to node n
			n := num(1) - 1
			found := false
			for _, e := range w.enabled(&simMenu{}, s.cnt) {
				if e.K == "D" && e.N == n {
					err = s.apply(e, true)
					found = true
					break
				}
			}
			if !found && err == nil {
				err = fmt.Errorf("no request in flight to node %d", n+1)
			}
		case "disc":
			// deliver every pending "peer disconnected" notification
			for {
				var pick *simEvent
				save := w.opt.Disconnects
				w.opt.Disconnects = true
				ev := w.enabled(&simMenu{}, s.cnt)
				w.opt.Disconnects = save
				for j := range ev {
					if ev[j].K == "DC" {
						pick = &ev[j]
						break
					}
				}
				if pick == nil {
					break
				}
				if err = s.apply(*pick, true); err != nil {
					break
				}
			}
		case "ev":
			var e simEvent
			if err = json.Unmarshal([]byte(strings.SplitN(cmd, ":", 2)[1]), &e); err == nil {
				err = s.apply(e, true)
			}
		default:
			err = fmt.Errorf("unknown script command %q", cmd)
		}
		if err != nil {
			return fmt.Errorf("%s: %v", cmd, err)
		}
		_ = w
	}
	if err := w.settle(); err != nil {
		return err
	}
	s.hist = nil // the script is part of the scenario, histories are relative to the seed
	s.dev = 0
	return nil
}

// runFree applies free (deviation 0) events in canonical order.
func (s *simState) runFree(limit int, stop func() bool) error {
	free := simMenu{}
	for i := 0; i < limit; i++ {
		if stop != nil && stop() {
			return nil
		}
		ev := s.w.enabled(&free, s.cnt)
		var pick *simEvent
		for j := range ev {
			if ev[j].Dev == 0 && ev[j].K != "RH" && ev[j].K != "S" && !(s.skipDC && ev[j].K == "DC") {
				pick = &ev[j]
				break
			}
		}
		if pick == nil {
			return nil
		}
		if err := s.apply(*pick, true); err != nil {
			return err
		}
	}
	return nil
}

type expandReq struct {
	ID     int        `json:"id"`
	Hist   []simEvent `json:"hist"`
	Hash   string     `json:"hash"` // expected hash of the state reached by Hist ("" = unknown)
	Dev    int        `json:"dev"`
	Replay bool       `json:"replay,omitempty"` // only replay and report
}

// chainRec is one further state reached by following the only enabled event
// (a free one) in the same world: states with a single successor are expanded
// without a replay of their own.
type chainRec struct {
	Ev    simEvent       `json:"ev"`
	Hash  string         `json:"hash"`
	Viol  []simViolation `json:"viol,omitempty"`
	Final []simViolation `json:"final,omitempty"`
}

type succRec struct {
	Chain []chainRec     `json:"chain,omitempty"`
	Ev    simEvent       `json:"ev"`
	Hash  string         `json:"hash"`
	Dev   int            `json:"dev"`
	Viol  []simViolation `json:"viol,omitempty"`
	Err   string         `json:"err,omitempty"`
	NEn   int            `json:"nen"`
}

type expandResp struct {
	ID          int            `json:"id"`
	Hash        string         `json:"hash"`
	Mismatch    bool           `json:"mismatch,omitempty"`
	Succ        []succRec      `json:"succ"`
	Viol        []simViolation `json:"viol,omitempty"` // violations in the state itself (seed)
	Err         string         `json:"err,omitempty"`
	Stats       map[string]int `json:"stats,omitempty"`
	Canon       string         `json:"canon,omitempty"`
	Final       []simViolation `json:"final,omitempty"`
	CrashImages int            `json:"crashImages,omitempty"` // "died at storage point k" successors computed
	OrderSteps  int            `json:"orderSteps,omitempty"`  // transitions repeated because they may depend on map iteration order
	OrderAlts   int            `json:"orderAlts,omitempty"`   // additional outcomes found that way
}

func replayHist(sc *simScenario, hist []simEvent) (*simState, error) {
	s, err := newSimState(sc)
	if err != nil {
		return s, err
	}
	for i, e := range hist {
		if err := s.apply(e, false); err != nil {
			return s, fmt.Errorf("replay step %d %v: %w", i, e, err)
		}
	}
	return s, nil
}

func describeErr(s *simState, err error) string {
	msg := err.Error()
	if err == errSimStuck || strings.Contains(msg, "stuck") {
		msg += "\n" + simGoroutineDump()
	}
	return msg
}

// mapOrderRisk tells whether a step of some leader may depend on Go's map
// iteration order (DESIGN.md 2.4): two or more membership actions pending at
// once (checkConfigActions ranges over a map) or a transfer to "any" target
// with several candidates (tryTransfer ranges over a map).
func (w *world) mapOrderRisk() bool {
	for _, n := range w.nodes {
		if !n.up || n.r.state != Leader {
			continue
		}
		r := n.r
		actions := 0
		for _, nd := range r.configs.Latest.Nodes {
			if nd.nextAction() != None || (nd.ID == r.nid && nd.Action != None) {
				actions++
			}
		}
		if actions >= 2 {
			return true
		}
		if r.ldr.transfer.inProgress() && r.ldr.transfer.target == 0 && r.configs.Latest.numVoters() > 2 {
			return true
		}
	}
	return false
}

// Go starts a map iteration at a random slot: with two entries in an 8-slot
// bucket the rarer order has probability 1/8, hence the generous retry counts.
const (
	simOrderRetries = 80 // attempts to reproduce a recorded state
	simOrderAlts    = 24 // repetitions of a map-order dependent step to collect its outcomes
)

// replayMatch replays hist until the state with the recorded hash is reached
// (a history through a map-order dependent step may need several attempts).
func replayMatch(sc *simScenario, hist []simEvent, want string) (*simState, error, bool) {
	var s *simState
	var err error
	for try := 0; try < simOrderRetries; try++ {
		s, err = replayHist(sc, hist)
		if err != nil {
			// an event of the history may not exist in the other outcome of a
			// map-order dependent step: try again (a persistent error is reported)
			if try+1 < simOrderRetries && errors.Is(err, errSimHarness) {
				s.close()
				continue
			}
			return s, err, false
		}
		if want == "" || s.hash() == want {
			return s, nil, true
		}
		if try+1 < simOrderRetries {
			s.close()
		}
	}
	return s, nil, false
}

// expand computes all successors of the state reached by req.Hist.
// isStuckErr tells whether err is the lock-step watchdog's verdict.
func isStuckErr(err error) bool {
	return err != nil && (errors.Is(err, errSimStuck) || strings.Contains(err.Error(), "stuck"))
}

// simPatient raises the watchdog for the confirmation of a suspected hang: a
// step that did not come back within the normal watchdog is executed once more,
// on a fresh world, with a much longer one before it is reported (a loaded
// machine must not turn into a "deadlock").
func simPatient() func() {
	old := simWatchdog
	simWatchdog = 60 * time.Second
	return func() { simWatchdog = old }
}

func expandState(sc *simScenario, req *expandReq) *expandResp {
	resp := &expandResp{ID: req.ID}
	s, err, matched := replayMatch(sc, req.Hist, req.Hash)
	if isStuckErr(err) {
		s.close()
		restore := simPatient()
		s, err, matched = replayMatch(sc, req.Hist, req.Hash)
		restore()
	}
	if err != nil {
		resp.Err = describeErr(s, err)
		s.close()
		return resp
	}
	resp.Hash = s.hash()
	if !matched {
		resp.Mismatch = true
	}
	if len(req.Hist) == 0 {
		resp.Viol = append(resp.Viol, s.w.led.viol...)
	}
	if req.Replay {
		resp.Canon = s.w.canon(s.cnt)
		resp.Viol = append([]simViolation(nil), s.w.led.viol...)
		s.close()
		return resp
	}
	resp.Stats = map[string]int{
		"leaders": s.w.led.stats.leaders, "commits": s.w.led.stats.commits, "elections": s.w.led.stats.elections,
		"configs": s.w.led.stats.configChanges, "restarts": s.w.led.stats.restarts,
		"snapshots": s.w.led.stats.snapshots, "compactions": s.w.led.stats.compactions, "linchecks": s.w.led.stats.linChecks, "inforeports": s.w.led.stats.infoReports,
		"install_keep_log": s.w.led.stats.snapInstalledKeep, "install_reset_log": s.w.led.stats.snapInstalledReset, "install_ignored": s.w.led.stats.snapIgnored,
	}
	evs := s.enabled()
	if sc.Final != "" && (sc.Final != "adversary" || s.w.led.newsAt == s.w.clock) {
		simExpectHash = resp.Hash
		resp.Final = finalCheck(sc, req.Hist)
		simExpectHash = ""
	}
	parentHash := resp.Hash
	type crashPt struct {
		ev      simEvent
		node    int
		npoints int
		names   []string
	}
	var crashPts []crashPt
	for i, e := range evs {
		seenOut := map[string]bool{}
		attempts := 1
		for a := 0; a < attempts; a++ {
			cur := s
			if i > 0 || a > 0 {
				var ok bool
				cur, err, ok = replayMatch(sc, req.Hist, parentHash)
				if err != nil || !ok {
					if err == nil {
						err = fmt.Errorf("parent state not reproduced in %d attempts", simOrderRetries)
					}
					if a == 0 {
						resp.Succ = append(resp.Succ, succRec{Ev: e, Err: "replay: " + describeErr(cur, err)})
					}
					cur.close()
					break
				}
			}
			risk := cur.w.mapOrderRisk() || (e.K == "AD" && (strings.HasPrefix(e.S, "demote2") || e.S == "transfer:0"))
			nv := len(cur.w.led.viol)
			rec := succRec{Ev: e}
			err := cur.apply(e, false)
			if isStuckErr(err) {
				// confirm on a fresh world with a patient watchdog
				cur.close()
				restore := simPatient()
				var ok bool
				cur, err, ok = replayMatch(sc, req.Hist, parentHash)
				if err == nil && ok {
					nv = len(cur.w.led.viol)
					err = cur.apply(e, false)
				} else if err == nil {
					err = fmt.Errorf("parent state not reproduced in %d attempts", simOrderRetries)
				}
				restore()
			}
			if err != nil {
				rec.Err = describeErr(cur, err)
			} else {
				rec.Hash = cur.hash()
				rec.Dev = cur.dev
				rec.NEn = len(cur.enabled())
				risk = risk || cur.w.mapOrderRisk()
			}
			if len(cur.w.led.viol) > nv {
				rec.Viol = append(rec.Viol, cur.w.led.viol[nv:]...)
			}
			if a == 0 && rec.Err == "" && !risk && !sc.Menu.CrashAt && (sc.Final == "" || sc.Final == "adversary") && len(rec.Viol) == 0 && os.Getenv("VERIF_NOCHAIN") == "" {
				chainHist := append(append([]simEvent(nil), req.Hist...), e)
				for len(rec.Chain) < 64 {
					evs2 := cur.enabled()
					if len(evs2) != 1 || evs2[0].Dev != 0 || cur.w.mapOrderRisk() {
						break
					}
					nv2 := len(cur.w.led.viol)
					e2 := evs2[0]
					if err := cur.apply(e2, false); err != nil {
						// the normal expansion of the last chain state reports it
						break
					}
					cr := chainRec{Ev: e2, Hash: cur.hash()}
					if len(cur.w.led.viol) > nv2 {
						cr.Viol = append(cr.Viol, cur.w.led.viol[nv2:]...)
					}
					chainHist = append(chainHist, e2)
					if sc.Final != "" && (sc.Final != "adversary" || cur.w.led.newsAt == cur.w.clock) {
						simExpectHash = cr.Hash
						cr.Final = finalCheck(sc, chainHist)
						simExpectHash = ""
					}
					rec.Chain = append(rec.Chain, cr)
					if len(cr.Viol) > 0 || cur.w.mapOrderRisk() {
						break
					}
				}
			}
			if !seenOut[rec.Hash+rec.Err] {
				seenOut[rec.Hash+rec.Err] = true
				resp.Succ = append(resp.Succ, rec)
			}
			if a == 0 && rec.Err == "" && sc.Menu.CrashAt && e.K != "K" && e.K != "S" && e.K != "SD" && e.K != "KA" {
				for _, n := range cur.w.nodes {
					if len(n.points) > 0 && cur.cnt.Crashes > 0 {
						crashPts = append(crashPts, crashPt{ev: e, node: n.idx, npoints: len(n.points), names: append([]string(nil), n.points...)})
					}
				}
			}
			cur.close()
			if a == 0 && risk && rec.Err == "" {
				// the outcome may depend on map iteration order: repeat to collect the alternatives
				attempts = simOrderAlts
				resp.OrderSteps++
			}
		}
		if len(seenOut) > 1 {
			resp.OrderAlts += len(seenOut) - 1
		}
	}
	// "node dies at its k-th storage point inside event e" for every storage-mutating transition
	for _, cp := range crashPts {
		for k := 0; k < cp.npoints; k++ {
			inner := cp.ev
			ka := simEvent{K: "KA", N: cp.node, A: k, In: &inner, Dev: inner.Dev + 1, S: cp.names[k]}
			if s.dev+ka.Dev > sc.MaxDev {
				continue
			}
			cur, err, ok := replayMatch(sc, req.Hist, parentHash)
			if err != nil || !ok {
				cur.close()
				continue
			}
			nv := len(cur.w.led.viol)
			rec := succRec{Ev: ka}
			if err := cur.apply(ka, false); err != nil {
				rec.Err = describeErr(cur, err)
			} else {
				rec.Hash = cur.hash()
				rec.Dev = cur.dev
				resp.CrashImages++
			}
			if len(cur.w.led.viol) > nv {
				rec.Viol = append(rec.Viol, cur.w.led.viol[nv:]...)
			}
			resp.Succ = append(resp.Succ, rec)
			cur.close()
		}
	}
	if len(evs) == 0 {
		s.close()
	}
	return resp
}

// simExpectHash is the canonical hash of the explored state a final check is
// being run for ("" = unknown, e.g. when an artefact is replayed).
var simExpectHash string

// replayExpected replays hist for a final check: the state reached must be the
// explored one (a history through a map-order dependent step can end in the
// other outcome, where later events of the history do not exist).
func replayExpected(sc *simScenario, hist []simEvent) (*simState, error) {
	if simExpectHash == "" {
		return replayHist(sc, hist)
	}
	s, err, ok := replayMatch(sc, hist, simExpectHash)
	if err == nil && !ok {
		err = fmt.Errorf("%w: explored state not reproduced in %d attempts", errSimHarness, simOrderRetries)
	}
	return s, err
}

// finalCheck is overridden by scenarios that evaluate a continuation from
// every explored state (shutdown sweep, fair progress).
var finalCheck = func(sc *simScenario, hist []simEvent) []simViolation { return nil }

func simWorkerMain(args []string) int {
	var sc simScenario
	if err := json.Unmarshal([]byte(os.Getenv("VERIF_SCENARIO")), &sc); err != nil {
		fmt.Fprintln(os.Stderr, "worker: bad scenario:", err)
		return 2
	}
	in := bufio.NewReaderSize(os.Stdin, 1<<20)
	out := bufio.NewWriter(os.Stdout)
	for {
		line, err := in.ReadBytes('\n')
		if len(line) > 0 {
			var req expandReq
			if err := json.Unmarshal(line, &req); err != nil {
				fmt.Fprintln(os.Stderr, "worker: bad request:", err)
				return 2
			}
			resp := expandState(&sc, &req)
			b, _ := json.Marshal(resp)
			out.Write(b)
			out.WriteByte('\n')
			out.Flush()
		}
		if err != nil {
			return 0
		}
	}
}

func init() {
	vkCommands["worker"] = simWorkerMain
}

// ------------------------------------------------------------- coordinator

type histNode struct {
	parent *histNode
	ev     simEvent
	depth  int
	dev    int
	hash   string
}

func (h *histNode) history() []simEvent {
	if h == nil {
		return nil
	}
	out := make([]simEvent, h.depth)
	for n := h; n != nil && n.depth > 0; n = n.parent {
		out[n.depth-1] = n.ev
	}
	return out
}

type simFinding struct {
	Viol simViolation `json:"viol"`
	Hist []simEvent   `json:"hist"`
	Scen string       `json:"scenario"`
}

type exploreResult struct {
	Scenario     string
	States       int
	Transitions  int
	MaxDepth     int
	DevCompleted int // highest deviation level fully explored (-1: none)
	Exhaustive   bool
	Capped       string
	Findings     []simFinding
	Errors       []string
	Stats        map[string]int
	Outcomes     map[string]int // distinct terminal/branching shapes
	Samples      [][]string
	Mismatches   int
	OrderSteps   int
	OrderAlts    int
	CrashImages  int
	CrashPoints  map[string]int
	Chained      int // transitions executed by chaining (no replay of their own)
	Validated    int // histories re-executed on the implementation that reproduced the recorded state hash
	WorkerDeaths int
	Wall         float64
}

type simWorker struct {
	cmd *exec.Cmd
	in  io.WriteCloser
	out *bufio.Reader
}

func startSimWorker(sc *simScenario) (*simWorker, error) {
	exe, err := os.Executable()
	if err != nil {
		return nil, err
	}
	b, _ := json.Marshal(sc)
	cmd := exec.Command(exe, "worker")
	cmd.Env = append(os.Environ(), "VERIF_SCENARIO="+string(b), "GOMAXPROCS=2")
	cmd.Stderr = os.Stderr
	in, err := cmd.StdinPipe()
	if err != nil {
		return nil, err
	}
	outp, err := cmd.StdoutPipe()
	if err != nil {
		return nil, err
	}
	if err := cmd.Start(); err != nil {
		return nil, err
	}
	return &simWorker{cmd: cmd, in: in, out: bufio.NewReaderSize(outp, 1<<20)}, nil
}

func (wk *simWorker) call(req *expandReq) (*expandResp, error) {
	b, _ := json.Marshal(req)
	if _, err := wk.in.Write(append(b, '\n')); err != nil {
		return nil, err
	}
	// a worker that does not answer is killed: the history is reported as a hang
	t := time.AfterFunc(simCallTimeout, func() { _ = wk.cmd.Process.Kill() })
	line, err := wk.out.ReadBytes('\n')
	if !t.Stop() && err != nil {
		return nil, fmt.Errorf("worker hung for %v and was killed", simCallTimeout)
	}
	if err != nil {
		return nil, err
	}
	var resp expandResp
	if err := json.Unmarshal(line, &resp); err != nil {
		return nil, err
	}
	return &resp, nil
}

var errClosedRead = errors.New("read through an unmapped log segment (SIGSEGV in production)")

func (wk *simWorker) stopCode() int {
	wk.stop()
	if wk.cmd.ProcessState != nil {
		return wk.cmd.ProcessState.ExitCode()
	}
	return -1
}

func (wk *simWorker) stop() {
	_ = wk.in.Close()
	done := make(chan struct{})
	go func() { _ = wk.cmd.Wait(); close(done) }()
	select {
	case <-done:
	case <-time.After(5 * time.Second):
		_ = wk.cmd.Process.Kill()
		<-done
	}
}

var simCallTimeout = 10 * time.Minute // a hang is confirmed inside the worker with a patient watchdog first

// explore runs the deviation-bounded breadth-first search of one scenario.
func explore(sc *simScenario, budget time.Duration, maxStates int) *exploreResult {
	start := time.Now()
	res := &exploreResult{Scenario: sc.Name, DevCompleted: -1, Stats: map[string]int{}, Outcomes: map[string]int{}}
	nw := runtime.NumCPU()
	if v := os.Getenv("VERIF_WORKERS"); v != "" {
		fmt.Sscanf(v, "%d", &nw)
	}
	type job struct {
		node *histNode
	}
	type result struct {
		node *histNode
		resp *expandResp
		err  error
	}
	jobs := make(chan job)
	results := make(chan result, nw)
	var wg sync.WaitGroup
	for i := 0; i < nw; i++ {
		wg.Add(1)
		go func() {
			defer wg.Done()
			var wk *simWorker
			served := 0
			defer func() {
				if wk != nil {
					wk.stop()
				}
			}()
			for j := range jobs {
				if wk == nil || served >= 300 {
					if wk != nil {
						wk.stop()
					}
					var err error
					wk, err = startSimWorker(sc)
					served = 0
					if err != nil {
						results <- result{node: j.node, err: err}
						wk = nil
						continue
					}
				}
				served++
				resp, err := wk.call(&expandReq{Hist: j.node.history(), Hash: j.node.hash, Dev: j.node.dev})
				if err != nil {
					code := wk.stopCode()
					wk = nil
					if code == log.VerifClosedReadExit {
						err = fmt.Errorf("%w (exit %d)", errClosedRead, code)
					} else {
						err = fmt.Errorf("%v (exit status %d)", err, code)
					}
				}
				results <- result{node: j.node, resp: resp, err: err}
			}
		}()
	}

	seen := map[string]int{} // hash -> lowest dev level at which it was reached
	levels := make([][]*histNode, sc.MaxDev+2)
	root := &histNode{}
	levels[0] = append(levels[0], root)
	findKey := map[string]bool{}
	addFinding := func(v simViolation, hist []simEvent) {
		if len(v.Full) > 0 {
			hist = v.Full
			v.Full = nil
		}
		k := v.Oracle + ":" + v.Key
		if findKey[k] {
			return
		}
		findKey[k] = true
		res.Findings = append(res.Findings, simFinding{Viol: v, Hist: hist, Scen: sc.Name})
	}
	capped := false
	for lvl := 0; lvl <= sc.MaxDev && !capped; lvl++ {
		queue := levels[lvl]
		levels[lvl] = nil
		inflight := 0
		for (len(queue) > 0 || inflight > 0) && !capped {
			var send chan job
			var next job
			if len(queue) > 0 {
				send = jobs
				next = job{node: queue[0]}
			}
			select {
			case send <- next:
				queue = queue[1:]
				inflight++
			case r := <-results:
				inflight--
				if r.err != nil {
					res.WorkerDeaths++
					hist := r.node.history()
					res.Errors = append(res.Errors, fmt.Sprintf("worker died expanding %v: %v", hist, r.err))
					if errors.Is(r.err, errClosedRead) {
						addFinding(simViolation{Oracle: "view", Key: "read-through-unmapped-segment", Desc: "a successor of this state reads log data through a segment that was already unmapped by compaction/reset: " + r.err.Error()}, hist)
					} else {
						addFinding(simViolation{Oracle: "alive", Key: "worker-died", Desc: fmt.Sprintf("worker process died (fatal error / crash) while expanding this state: %v", r.err)}, hist)
					}
					continue
				}
				resp := r.resp
				if resp.Err != "" {
					res.Errors = append(res.Errors, fmt.Sprintf("replay of %v failed: %s", r.node.history(), firstLine(resp.Err)))
					if strings.Contains(resp.Err, "stuck") {
						addFinding(simViolation{Oracle: "alive", Key: "stuck-step", Desc: resp.Err}, r.node.history())
					}
					continue
				}
				if resp.Mismatch {
					res.Mismatches++
				} else if r.node.hash != "" {
					res.Validated++
				}
				if r.node == root {
					root.hash = resp.Hash
					seen[resp.Hash] = 0
					res.States++
					for _, v := range resp.Viol {
						addFinding(v, nil)
					}
				}
				res.CrashImages += resp.CrashImages
				res.OrderSteps += resp.OrderSteps
				res.OrderAlts += resp.OrderAlts
				for k, v := range resp.Stats {
					if v > res.Stats[k] {
						res.Stats[k] = v
					}
				}
				for _, v := range resp.Final {
					addFinding(v, r.node.history())
				}
				if len(resp.Succ) == 0 {
					res.Outcomes["terminal"]++
				}
				if len(res.Samples) < 6 && r.node.depth >= 4 && r.node.depth%3 == 1 {
					var hs []string
					for _, e := range r.node.history() {
						hs = append(hs, e.String())
					}
					res.Samples = append(res.Samples, hs)
				}
				for _, sr := range resp.Succ {
					res.Transitions++
					if sr.Ev.K == "KA" && sr.Err == "" {
						if res.CrashPoints == nil {
							res.CrashPoints = map[string]int{}
						}
						res.CrashPoints[sr.Ev.S]++
					}
					hist := append(r.node.history(), sr.Ev)
					if sr.Err != "" {
						res.Errors = append(res.Errors, fmt.Sprintf("event %v after %v: %s", sr.Ev, r.node.history(), firstLine(sr.Err)))
						if strings.Contains(sr.Err, "stuck") {
							addFinding(simViolation{Oracle: "alive", Key: "stuck-step:" + sr.Ev.K, Desc: sr.Err}, hist)
						}
						continue
					}
					for _, v := range sr.Viol {
						addFinding(v, hist)
					}
					if old, ok := seen[sr.Hash]; ok && old <= sr.Dev {
						continue
					}
					if _, ok := seen[sr.Hash]; !ok {
						res.States++
					}
					seen[sr.Hash] = sr.Dev
					child := &histNode{parent: r.node, ev: sr.Ev, depth: r.node.depth + 1, dev: sr.Dev, hash: sr.Hash}
					// states with a single (free) successor were expanded by the worker in the same world
					for _, cr := range sr.Chain {
						res.Transitions++
						res.Chained++
						chist := append(child.history(), cr.Ev)
						for _, v := range cr.Viol {
							addFinding(v, chist)
						}
						for _, v := range cr.Final {
							addFinding(v, chist)
						}
						if old, ok := seen[cr.Hash]; ok && old <= sr.Dev {
							child = nil
							break
						}
						if _, ok := seen[cr.Hash]; !ok {
							res.States++
						}
						seen[cr.Hash] = sr.Dev
						child = &histNode{parent: child, ev: cr.Ev, depth: child.depth + 1, dev: sr.Dev, hash: cr.Hash}
					}
					if child == nil {
						continue
					}
					if child.depth > res.MaxDepth {
						res.MaxDepth = child.depth
					}
					if sr.Dev == lvl {
						queue = append(queue, child)
					} else if sr.Dev <= sc.MaxDev {
						levels[sr.Dev] = append(levels[sr.Dev], child)
					}
				}
				if budget > 0 && time.Since(start) > budget {
					capped = true
					res.Capped = fmt.Sprintf("time budget %v hit at deviation level %d with %d states queued", budget, lvl, len(queue))
				}
				if maxStates > 0 && res.States > maxStates {
					capped = true
					res.Capped = fmt.Sprintf("state cap %d hit at deviation level %d", maxStates, lvl)
				}
			}
		}
		if !capped {
			res.DevCompleted = lvl
		}
	}
	close(jobs)
	// drain
	go func() { wg.Wait(); close(results) }()
	// the expansions that were still running when the budget ended: their states are not counted and not
	// expanded further, but what they found is not thrown away
	for r := range results {
		hist := r.node.history()
		if r.err != nil {
			res.WorkerDeaths++
			res.Errors = append(res.Errors, fmt.Sprintf("worker died expanding %v: %v", hist, r.err))
			if errors.Is(r.err, errClosedRead) {
				addFinding(simViolation{Oracle: "view", Key: "read-through-unmapped-segment", Desc: "a successor of this state reads log data through a segment that was already unmapped by compaction/reset: " + r.err.Error()}, hist)
			} else {
				addFinding(simViolation{Oracle: "alive", Key: "worker-died", Desc: fmt.Sprintf("worker process died (fatal error / crash) while expanding this state: %v", r.err)}, hist)
			}
			continue
		}
		if r.resp == nil {
			continue
		}
		if r.resp.Err != "" {
			if strings.Contains(r.resp.Err, "stuck") {
				addFinding(simViolation{Oracle: "alive", Key: "stuck-step", Desc: r.resp.Err}, hist)
			}
			continue
		}
		for _, v := range r.resp.Final {
			addFinding(v, hist)
		}
		for _, sr := range r.resp.Succ {
			h2 := append(r.node.history(), sr.Ev)
			if sr.Err != "" {
				if strings.Contains(sr.Err, "stuck") {
					addFinding(simViolation{Oracle: "alive", Key: "stuck-step:" + sr.Ev.K, Desc: sr.Err}, h2)
				}
				continue
			}
			for _, v := range sr.Viol {
				addFinding(v, h2)
			}
			for _, cr := range sr.Chain {
				h2 = append(h2, cr.Ev)
				for _, v := range cr.Viol {
					addFinding(v, h2)
				}
				for _, v := range cr.Final {
					addFinding(v, h2)
				}
			}
		}
	}
	res.Exhaustive = !capped && len(res.Errors) == 0
	res.Wall = time.Since(start).Seconds()
	sort.Slice(res.Findings, func(i, j int) bool { return res.Findings[i].Viol.Key < res.Findings[j].Viol.Key })
	return res
}

func firstLine(s string) string {
	if i := strings.IndexByte(s, '\n'); i >= 0 {
		return s[:i]
	}
	return s
}
