//go:build verif
// +build verif

package raft

import (
	"fmt"
	"time"
)

// Scenario family "member" (C08, C11) and "durable" (C06): membership changes
// interleaved with elections, faults and replication progress.

type memberSeed struct {
	name      string
	nodes     int
	voters    []uint64
	nonvoters []uint64
	script    []string
	admin     []string
}

var memberSeeds = []memberSeed{
	{"3v", 4, []uint64{1, 2, 3}, nil, []string{"T:1", "run"},
		[]string{"demote:2", "remove:3", "forceremove:2", "demote:1", "remove:1", "add:4:promote", "add:4", "demote2:2:3", "flipvoter:2", "flip2:2:3", "stale"}},
	{"2v+nv", 3, []uint64{1, 2}, []uint64{3}, []string{"T:1", "run"},
		[]string{"promote:3", "remove:3", "demote:2", "demote:1", "forceremove:2", "handover:3"}},
	{"1v+nv", 2, []uint64{1}, []uint64{2}, []string{"T:1", "run"},
		[]string{"promote:2", "remove:2", "handover:2"}},
	// a follower holds a configuration entry that reached nobody else: n1 appended {demote n2} at index 3, only n3
	// received it, n1 crashed before flushing it and is back without it
	{"phantom-config", 3, []uint64{1, 2, 3}, nil, []string{"T:1", "run", "admin:1:demote:2", `ev:{"k":"RS","n":0,"f":3}`, "deliver:3", "crash:1", "restart:1"},
		[]string{"demote:3"}},
	// promotion already requested; the non-voter still has to catch up
	{"promoting", 3, []uint64{1, 2}, []uint64{3}, []string{"T:1", "run", "block:1:3", "update:1", "run", "admin:1:promote:3", "run", "heal:1:3"},
		[]string{"demote:2", "remove:3"}},
}

func memberSeedByName(name string) memberSeed {
	for _, s := range memberSeeds {
		if s.name == name {
			return s
		}
	}
	panic("unknown membership seed " + name)
}

func scenMember(seed memberSeed, dev int, maxAdmin int, promoteNs int64, orderCost bool, oracles []string, updates int) *simScenario {
	name := "member-" + seed.name
	if promoteNs == 1 {
		name += "-slowpromote"
	}
	if orderCost {
		name += "-delaybounded"
	}
	return &simScenario{
		Name: name,
		Opt: worldOpt{Nodes: seed.nodes, Voters: seed.voters, Nonvoters: seed.nonvoters, EagerFSM: true, EagerLU: true, EagerConnect: true,
			PromoteNs: promoteNs, ShutOnRem: true},
		Script: seed.script,
		Menu: simMenu{OrderCost: orderCost, Timeouts: true, MaxTerm: 4, Drops: true, Crashes: true,
			Admin: seed.admin, MaxAdmin: maxAdmin, Clients: []string{"update"}, MaxUpdates: updates, ClientNodes: []int{0}},
		MaxDev:  dev,
		Crashes: 1,
		Oracles: oracles,
	}
}

func memberScenarios(tier string, oracles []string, updates int) []*simScenario {
	var out []*simScenario
	for _, s := range memberSeeds {
		if tier == "thorough" {
			out = append(out, scenMember(s, 2, 2, 0, false, oracles, updates))
			out = append(out, scenMember(s, 4, 2, 0, true, oracles, updates))
			out = append(out, scenMember(s, 3, 2, 1, true, oracles, updates))
		} else {
			out = append(out, scenMember(s, 1, 1, 0, false, oracles, updates))
			out = append(out, scenMember(s, 2, 2, 0, true, oracles, updates))
		}
	}
	return out
}

// the leader takes itself out (remove / demote) while an older entry is in flight to both followers: the
// acknowledgements of the older entry and of the configuration entry arrive in every order
func scenSelfRemove(dev int, oracles []string) *simScenario {
	seed := memberSeed{"selfremove", 3, []uint64{1, 2, 3}, nil,
		[]string{"T:1", "run", "update:1", `ev:{"k":"RS","n":0,"f":2}`, `ev:{"k":"RS","n":0,"f":3}`}, []string{"remove:1", "demote:1"}}
	sc := scenMember(seed, dev, 1, 0, false, oracles, 0)
	sc.Menu = simMenu{Drops: true, Admin: seed.admin, MaxAdmin: 1}
	sc.Crashes = 0
	return sc
}

// a new leader inherits a pending promotion: n3 is being promoted, the old leader n1 crashed and is back as
// follower, n2 has just won term 3 and its no-op is not committed yet; n3 is about to acknowledge everything
func scenPendingNewLeader(dev int) *simScenario {
	base := memberSeedByName("promoting")
	script := append(append([]string{}, base.script...),
		`ev:{"k":"RS","n":0,"f":3}`, "deliver:3", `ev:{"k":"RR","n":0,"f":3}`, `ev:{"k":"RS","n":0,"f":3}`, "deliver:3",
		"crash:1", "restart:1", "elect:2")
	seed := memberSeed{"pending-newleader", 3, base.voters, base.nonvoters, script, nil}
	sc := scenMember(seed, dev, 0, 0, false, nil, 0)
	sc.Menu = simMenu{Drops: true}
	sc.Crashes = 0
	return sc
}

// a follower with a snapshot of its own and exactly one configuration entry above it, not committed, restarts; the
// leader that sent the entry crashed before flushing it; n2 wins the next term without the entry and overwrites it:
// n3 must fall back to the configuration of its snapshot, not to the entry that was just removed
func scenSnapUncommittedConfig(dev int) *simScenario {
	seed := memberSeed{"snap-uncommitted-config", 3, []uint64{1, 2, 3}, nil,
		[]string{"T:1", "run", "update:1", "run", "update:1", "run", "snap:3", "run", "admin:1:demote:2",
			`ev:{"k":"RS","n":0,"f":3}`, "deliver:3", "crash:3", "restart:3", "crash:1", "restart:1", "elect:2"}, nil}
	sc := scenMember(seed, dev, 0, 0, false, nil, 0)
	sc.Menu = simMenu{Drops: true}
	sc.Crashes = 0
	return sc
}

// a follower receives two configuration entries in one request while its commit index is below the first: n3 was cut
// off while node 4 was added (committed with n2); the leader then appended {remove n4} and crashed before flushing it or
// sending it to n2; n3 holds both entries, n2 wins the next term without the second one and overwrites it: n3 must
// fall back to the first of the two (still in its log), not to the configuration it had before the request
func scenTwoConfigsOneRequest(dev int) *simScenario {
	seed := memberSeed{"two-configs-one-request", 4, []uint64{1, 2, 3}, nil,
		[]string{"T:1", "run", "block:1:3", "admin:1:add:4", "run", "heal:1:3", "admin:1:remove:4",
			`ev:{"k":"RS","n":0,"f":3}`, `ev:{"k":"RS","n":0,"f":3}`, "deliver:3", `ev:{"k":"RR","n":0,"f":3}`, `ev:{"k":"RS","n":0,"f":3}`, "deliver:3", "crash:1", "restart:1", "elect:2"}, nil}
	sc := scenMember(seed, dev, 0, 0, false, nil, 0)
	sc.Menu = simMenu{} // every interleaving of the internal events, no faults: with four nodes one dropped message already costs > 100 s
	sc.Crashes = 0
	return sc
}

// a node promoted and demoted again under the same leader has fallen behind when its promotion is requested once
// more: whatever the leader remembers of the first promotion must not count
func scenRepromote(dev int) *simScenario {
	seed := memberSeed{"repromote", 3, []uint64{1, 2}, []uint64{3},
		[]string{"T:1", "run", "admin:1:promote:3", "run", "admin:1:demote:3", "run", "block:1:3", "update:1", "run", "update:1", "run"}, []string{"promote:3"}}
	sc := scenMember(seed, dev, 1, 0, false, nil, 0)
	sc.Menu = simMenu{Drops: true, Admin: seed.admin, MaxAdmin: 1}
	sc.Crashes = 0
	return sc
}

func scenDurableCut() *simScenario {
	cut := scenRepl(replSeed{"durable-cut", []string{"T:1", "run", "block:1:3", "update:1", "update:1"}}, 2, true, 0, 0, 3)
	cut.Name = "durable-cut"
	cut.Menu = simMenu{Cuts: true, Drops: true}
	cut.Final = ""
	cut.Oracles = []string{"durable"}
	return cut
}

func init() {
	simScenarios["durable-cut"] = scenDurableCut()
	simScenarios["member-pending-newleader"] = scenPendingNewLeader(1)
	simScenarios["member-selfremove"] = scenSelfRemove(2, nil)
	simScenarios["member-repromote"] = scenRepromote(1)
	simScenarios["member-snap-uncommitted-config"] = scenSnapUncommittedConfig(1)
	simScenarios["member-two-configs-one-request"] = scenTwoConfigsOneRequest(1)
	for _, s := range memberSeeds {
		simScenarios["member-"+s.name] = scenMember(s, 1, 1, 0, false, []string{"durable"}, 1)
		simScenarios[fmt.Sprintf("member-%s-db", s.name)] = scenMember(s, 2, 2, 0, true, []string{"durable"}, 1)
	}
	budget := func(tier string) time.Duration {
		if tier == "thorough" {
			return 40 * time.Minute
		}
		return 240 * time.Second
	}
	c08 := &simCheckSpec{Prop: "C08", Oracles: []string{"config", "leader", "commit"},
		Scenarios: func(t string) []*simScenario {
			return append([]*simScenario{scenPendingNewLeader(1), scenSnapUncommittedConfig(1), scenTwoConfigsOneRequest(1)}, memberScenarios(t, nil, 0)...)
		}, Budget: budget,
		MustReach: []string{"configs"}}
	vkChecks["C08"] = func(args []string) int { return runSimCheck(c08, args) }
	// "acknowledgements [of non-voters] never count towards commitment": the durable-on-a-voter-majority oracle runs here too
	c11 := &simCheckSpec{Prop: "C11", Oracles: []string{"nonvoter", "removed", "promote", "durable"},
		Scenarios: func(t string) []*simScenario {
			return append([]*simScenario{scenSelfRemove(2, nil), scenRepromote(1)}, memberScenarios(t, []string{"durable"}, 1)...)
		}, Budget: budget,
		MustReach: []string{"configs"}}
	vkChecks["C11"] = func(args []string) int { return runSimCheck(c11, args) }
	c06 := &simCheckSpec{Prop: "C06", Oracles: []string{"durable"},
		Scenarios: func(t string) []*simScenario {
			out := memberScenarios(t, []string{"durable"}, 1)
			// a request carrying two uncommitted entries breaks in the middle; commitment then rests on what the
			// follower kept (n3 is cut off, so n2's acknowledgement decides)
			out = append([]*simScenario{scenDurableCut()}, out...)
			// flushing after the log was compacted / reset by a snapshot installation
			for _, name := range []string{"lagging", "full"} {
				sc := scenSnap(snapSeeds[snapSeedIndex(name)], 2, true, true, 1)
				sc.Oracles = []string{"durable"}
				out = append(out, sc)
			}
			return out
		}, Budget: budget,
		MustReach: []string{"commits"},
		Extra:     liveConformance,
		Assume:    []string{"'crash of all nodes now' is a byte copy of every storage directory taken while all goroutines are parked, reopened with the real openStorage (process-crash model: completed file operations survive)"}}
	vkChecks["C06"] = func(args []string) int { return runSimCheck(c06, args) }
}
