// +build verif

package raft

import (
	"fmt"
	"os"
	"runtime/pprof"
	"time"
)

func simBenchMain(args []string) int {
	sc := simScenarios[vkArg(args, "scenario", "elect")]
	n := vkArgInt(args, "n", 200)
	steps := vkArgInt(args, "steps", 20)
	if p := vkArg(args, "cpuprofile", ""); p != "" {
		f, _ := os.Create(p)
		pprof.StartCPUProfile(f)
		defer pprof.StopCPUProfile()
	}
	// build a history by always taking the first enabled event
	s, err := newSimState(sc)
	if err != nil {
		fmt.Println(err)
		return 1
	}
	for i := 0; i < steps; i++ {
		ev := s.enabled()
		if len(ev) == 0 {
			break
		}
		if err := s.apply(ev[0], false); err != nil {
			fmt.Println(err)
			return 1
		}
	}
	hist := append([]simEvent(nil), s.hist...)
	s.close()
	t0 := time.Now()
	for i := 0; i < n; i++ {
		s, err := replayHist(sc, hist)
		if err != nil {
			fmt.Println(err)
			return 1
		}
		_ = s.hash()
		s.close()
	}
	d := time.Since(t0)
	fmt.Printf("replay of %d events x %d: %v per replay\n", len(hist), n, d/time.Duration(n))
	return 0
}

func init() { vkCommands["simbench"] = simBenchMain }
