//go:build verif
// +build verif

package raft

import "time"

// Scenario family "snap" (C09, C12): snapshots, compaction, installation on
// lagging followers, restart from snapshot + suffix, interleaved with commits
// of membership changes; segment size 1024 with padded commands so that a
// segment holds three updates.

type snapSeed struct {
	name   string
	nodes  int
	voters []uint64
	nonv   []uint64
	script []string
	admin  []string
}

var snapSeeds = []snapSeed{
	// leader n1 with a log spanning two segments, everybody caught up
	{"full", 3, []uint64{1, 2, 3}, nil, []string{"T:1", "run", "update:1", "run", "update:1", "run", "update:1", "run", "update:1", "run"}, nil},
	// follower n3 missed everything after the first update; the leader already took a snapshot and compacted
	{"lagging", 3, []uint64{1, 2, 3}, nil, []string{"T:1", "run", "update:1", "run", "block:1:3", "update:1", "run", "update:1", "run", "update:1", "run", "update:1", "run", "snap:1", "run", "heal:1:3"}, nil},
	// compaction boundary: n3 is cut off with its match index (4) exactly at the end of the first segment, n2 is one
	// entry into the next segment, the leader has taken a snapshot at 5; n3 is back in contact
	{"boundary", 3, []uint64{1, 2, 3}, nil, []string{"T:1", "run", "update:1", "run", "update:1", "run", "block:1:3", "update:1", "run", "snap:1", "run", "heal:1:3"}, nil},
	// divergent follower that needs a snapshot: n1 was cut off as leader of term 2 with four uncommitted entries (5..8);
	// n2 leads term 3, committed other entries at 5..8 with n3, took a snapshot at 8 and compacted; n1 is back
	{"divergent", 3, []uint64{1, 2, 3}, nil, []string{"T:1", "run", "update:1", "run", "update:1", "run",
		"block:1:2", "block:1:3", "update:1", "update:1", "update:1", "update:1", "run", "disc", "elect:2", "run",
		"update:2", "run", "update:2", "run", "update:2", "run", "snap:2", "run", "heal:1:2", "heal:1:3"}, nil},
	// as "divergent", but n1's stale tail (5..11) is long enough to be durable beyond the snapshot index: rolling into a
	// fourth segment flushed 5..10; a crash in the middle of the snapshot installation leaves snapshot 8 next to a log
	// that holds other entries at 5..8 and beyond
	{"divergent-long", 3, []uint64{1, 2, 3}, nil, []string{"T:1", "run", "update:1", "run", "update:1", "run",
		"block:1:2", "block:1:3", "update:1", "update:1", "update:1", "update:1", "update:1", "update:1", "update:1", "run", "disc", "elect:2", "run",
		"update:2", "run", "update:2", "run", "update:2", "run", "snap:2", "run", "heal:1:2", "heal:1:3"}, nil},
	// a follower that misses a membership change: n3 is cut off while node 4 is added and the leader snapshots and
	// compacts; back in contact n3 needs that snapshot (which carries the newer membership)
	{"config-lagging", 4, []uint64{1, 2, 3}, nil, []string{"T:1", "run", "update:1", "run", "block:1:3", "admin:1:add:4", "run",
		"update:1", "run", "update:1", "run", "update:1", "run", "update:1", "run", "snap:1", "run", "heal:1:3"}, nil},
	// a snapshot was taken at 4 = end of the first segment while entry 5 was appended but not committed, with every
	// follower's match index at 4; the non-voter n3 is still at 4 and has not looked at the leader's updates since
	// (FSM goroutine as explicit actor only: the script contains its steps)
	{"second", 3, []uint64{1, 2}, []uint64{3}, []string{"T:1", "run", "update:1", "run", "update:1", "run", "update:1",
		`ev:{"k":"RS","n":0,"f":2}`, `ev:{"k":"D","n":1,"c":"0>1#0"}`, "snap:1", `ev:{"k":"SS","n":0}`, `ev:{"k":"F","n":0}`, `ev:{"k":"SW","n":0}`,
		`ev:{"k":"RR","n":0,"f":2}`, `ev:{"k":"F","n":0}`, `ev:{"k":"ST","n":0}`}, nil},
	// a promotion entry is appended and on its way to n2 when a snapshot is requested: the configuration commits
	// between the request and the moment the FSM hands over its state (D5)
	{"member-inflight", 3, []uint64{1, 2}, []uint64{3}, []string{"T:1", "run", "update:1", "run", "update:1", "run",
		"admin:1:promote:3", `ev:{"k":"RS","n":0,"f":2}`, "deliver:2"}, nil},
	// a membership change is in flight while snapshots are requested
	{"member", 3, []uint64{1, 2}, []uint64{3}, []string{"T:1", "run", "update:1", "run", "update:1", "run"}, []string{"promote:3", "remove:3"}},
}

// the node clients talk to: the leader the seed script leaves behind
func seedClients(seed snapSeed) []int {
	if seed.name == "divergent" || seed.name == "divergent-long" {
		return []int{1}
	}
	if seed.name == "config-lagging" {
		return []int{0, 2} // the leader, and the follower that takes its own snapshot later
	}
	return []int{0}
}

func snapSeedIndex(name string) int {
	for i, s := range snapSeeds {
		if s.name == name {
			return i
		}
	}
	panic("unknown snapshot seed " + name)
}

func scenSnap(seed snapSeed, dev int, eagerFSM bool, orderCost bool, maxSnaps int) *simScenario {
	name := "snap-" + seed.name
	if !eagerFSM {
		name += "-fsmlag"
	}
	if orderCost {
		name += "-delaybounded"
	}
	sc := &simScenario{
		Name:   name,
		Opt:    worldOpt{Nodes: seed.nodes, Voters: seed.voters, Nonvoters: seed.nonv, EagerFSM: eagerFSM, EagerLU: true, EagerConnect: true, Pad: 275},
		Script: seed.script,
		Menu: simMenu{OrderCost: orderCost, Timeouts: true, MaxTerm: 3, Drops: true, Dups: true, Crashes: true, Snapshots: true, MaxSnaps: maxSnaps,
			Clients: []string{"update"}, MaxUpdates: 2, ClientNodes: seedClients(seed), Admin: seed.admin, MaxAdmin: 1},
		MaxDev:  dev,
		Crashes: 1,
	}
	return sc
}

// "compaction never leaves the node unable to restart or to bring any follower up to date": the divergent follower
// dies at every storage point of the snapshot installation, restarts, and the cluster must converge (fair
// continuation from every explored state, as in C17)
func scenSnapCrashProgress(dev int) *simScenario {
	sc := crashScenario(scenSnap(snapSeeds[snapSeedIndex("divergent-long")], dev, true, true, 0), dev)
	sc.Name = "snap-divergent-crash-progress"
	sc.Menu = simMenu{OrderCost: true, CrashAt: true, Crashes: true, Drops: true}
	sc.Final = "progress"
	sc.Opt.Disconnects = false
	return sc
}

func snapScenarios(tier string) []*simScenario {
	var out []*simScenario
	for _, s := range snapSeeds {
		if s.name == "second" {
			out = append(out, scenSnap(s, 2, false, true, 2))
			continue
		}
		if s.name == "divergent-long" {
			continue // used by the crash + progress scenario only
		}
		if s.name == "member-inflight" {
			sc := scenSnap(s, 1, true, false, 1)
			sc.Menu = simMenu{Snapshots: true, MaxSnaps: 1, Drops: true}
			sc.Crashes = 0
			out = append(out, sc)
			continue
		}
		if s.name == "divergent" || s.name == "config-lagging" || s.name == "boundary" {
			d := 2
			if tier == "thorough" {
				d = 3
			}
			sc := scenSnap(s, d, true, false, 1)
			if s.name == "config-lagging" {
				// four nodes: keep the fault alphabet small (updates at the leader, snapshots on the follower that lagged);
				// the broad alphabets run on the three-node seeds
				sc.Menu = simMenu{Snapshots: true, MaxSnaps: 1, Clients: []string{"update"}, MaxUpdates: 1, ClientNodes: []int{0, 2}, Drops: true}
				if tier == "thorough" {
					sc.Menu.Timeouts, sc.Menu.MaxTerm, sc.Menu.Crashes = true, 3, true
				}
			}
			out = append(out, sc)
			continue
		}
		if tier == "thorough" {
			out = append(out, scenSnap(s, 2, true, false, 2), scenSnap(s, 4, false, true, 2))
		} else {
			out = append(out, scenSnap(s, 1, true, false, 1), scenSnap(s, 2, false, true, 2))
		}
	}
	return out
}

func init() {
	for _, s := range snapSeeds {
		if s.name == "second" {
			simScenarios["snap-second-db"] = scenSnap(s, 2, false, true, 2)
			continue
		}
		if s.name == "member-inflight" {
			sc := scenSnap(s, 1, true, false, 1)
			sc.Menu = simMenu{Snapshots: true, MaxSnaps: 1, Drops: true}
			sc.Crashes = 0
			simScenarios[sc.Name] = sc
			continue
		}
		simScenarios["snap-"+s.name] = scenSnap(s, 1, true, false, 1)
		simScenarios["snap-"+s.name+"-db"] = scenSnap(s, 2, false, true, 2)
	}
	budget := func(tier string) time.Duration {
		if tier == "thorough" {
			return 40 * time.Minute
		}
		return 240 * time.Second
	}
	simScenarios["snap-divergent-crash-progress"] = scenSnapCrashProgress(1)
	adv := scenSnapCrashProgress(3)
	adv.Name = "snap-divergent-crash-adversary"
	adv.Menu.Timeouts, adv.Menu.MaxTerm = true, 6
	adv.Final = "adversary"
	simScenarios[adv.Name] = adv
	c09 := &simCheckSpec{Prop: "C09", Oracles: []string{"apply", "snapshot", "view", "alive", "progress", "crash"},
		Scenarios: func(t string) []*simScenario {
			d := 1
			if t == "thorough" {
				d = 2
			}
			return append(snapScenarios(t), scenSnapCrashProgress(d))
		}, Budget: budget, MustReach: []string{"snapshots"},
		Assume: []string{"'nor invalidates log data a replication task is still reading' is decided by a guard that reports any Log.Get/GetN through an unmapped segment (a SIGSEGV in production) made by the raft, FSM or replication code"}}
	vkChecks["C09"] = func(args []string) int { return runSimCheck(c09, args) }
	c12 := &simCheckSpec{Prop: "C12", Oracles: []string{"label"},
		Scenarios: snapScenarios, Budget: budget, MustReach: []string{"snapshots"}}
	vkChecks["C12"] = func(args []string) int { return runSimCheck(c12, args) }
}
