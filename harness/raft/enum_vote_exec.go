// +build verif

package raft

// C05 — execution layer: one REAL node per case (SetIdentity + bootstrap + New
// on a scratch directory), the events are delivered to the real handlers
// (replyRPC -> onVoteRequest, onRequest -> onAppendEntriesRequest,
// candidate.startElection, storage.setTerm / setVotedFor), crash images are
// copies of the directory taken from inside the verifPoint hooks, a restart is
// a fresh New on such a copy.

import (
	"bufio"
	"fmt"
	"io/ioutil"
	"net"
	"os"
	"path/filepath"
	"sort"
	"strings"
	"sync"
	"time"
)

const (
	c05Self uint64 = 1
	c05A    uint64 = 2
	c05B    uint64 = 3
	c05CID  uint64 = 7
)

// c05Voter is the state of the node under test before the first event.
type c05Voter struct {
	Term      uint64 `json:"term"`
	VotedFor  uint64 `json:"votedFor"`
	Leader    uint64 `json:"leader"`
	State     string `json:"state"` // F | C | L
	LogIndex  uint64 `json:"lastLogIndex"`
	LogTerm   uint64 `json:"lastLogTerm"`
	Reachable bool   `json:"reachable"` // false: kept as a superset of the stated domain only
}

// c05Event is one input, with absolute values (self-contained for replay).
type c05Event struct {
	Type         string `json:"type"` // vote | heartbeat | election | setTerm | setVotedFor
	Term         uint64 `json:"term,omitempty"`
	Src          uint64 `json:"src,omitempty"` // candidate / leader / candidate argument of setVotedFor
	LastLogIndex uint64 `json:"lastLogIndex,omitempty"`
	LastLogTerm  uint64 `json:"lastLogTerm,omitempty"`
	Transfer     bool   `json:"transfer,omitempty"`
	Label        string `json:"label,omitempty"` // how the enumeration named it (relative to the voter)
}

// c05Crash: the process is killed while event At is being handled, at Point
// ("before" = before event At is delivered, "after" = after its reply was
// produced, otherwise the name of a verifPoint inside the persisting code).
type c05Crash struct {
	At    int    `json:"at"`
	Point string `json:"point"`
}

// c05Fault: the rename of the term file fails while event At persists.
type c05Fault struct {
	At   int    `json:"at"`
	Kind string `json:"kind"` // rename-fails
}

type c05Case struct {
	Layer  string     `json:"layer"` // vote | setter
	Voter  c05Voter   `json:"voter"`
	Events []c05Event `json:"events"`
	Crash  *c05Crash  `json:"crash,omitempty"`
	Fault  *c05Fault  `json:"fault,omitempty"`
	ord    []int
}

func (cs *c05Case) clone() *c05Case {
	c := *cs
	c.Events = append([]c05Event(nil), cs.Events...)
	if cs.Crash != nil {
		x := *cs.Crash
		c.Crash = &x
	}
	if cs.Fault != nil {
		x := *cs.Fault
		c.Fault = &x
	}
	c.ord = append([]int(nil), cs.ord...)
	return &c
}

func c05Name(id uint64) string {
	switch id {
	case 0:
		return "0"
	case c05Self:
		return "self"
	case c05A:
		return "A"
	case c05B:
		return "B"
	}
	return fmt.Sprint(id)
}

func c05Options() Options {
	return Options{
		HeartbeatTimeout:  time.Second,
		PromoteThreshold:  time.Second,
		SnapshotInterval:  0,
		SnapshotThreshold: 8192,
		ShutdownOnRemove:  true,
		Bandwidth:         256 * 1024,
		LogSegmentSize:    4096,
		SnapshotsRetain:   1,
	}
}

// ---------------------------------------------------------------- hooks

var (
	c05Owners       sync.Map // *storage / *value -> *c05Node
	c05PrevPoint    func(owner interface{}, name string)
	c05PrevGranting func(s *storage, term, candidate uint64) error
)

func c05InstallHooks() (restore func()) {
	c05PrevPoint = verifHooks.point
	c05PrevGranting = grantingVote
	verifHooks.point = c05Point
	grantingVote = c05Granting
	return func() {
		verifHooks.point = c05PrevPoint
		grantingVote = c05PrevGranting
	}
}

func c05Point(owner interface{}, name string) {
	v, ok := c05Owners.Load(owner)
	if !ok {
		if c05PrevPoint != nil {
			c05PrevPoint(owner, name)
		}
		return
	}
	n := v.(*c05Node)
	if !n.armed {
		return
	}
	if strings.HasPrefix(name, "log.") {
		n.logTouched = true
		return
	}
	n.fired = append(n.fired, name)
	if n.postProbe && name == "vote.post" {
		t, v, err := c05ReadDisk(n.dir)
		n.postObs = &c05WireObs{diskTerm: t, diskVote: v, diskErr: err}
	}
	if n.capture != nil {
		n.capture(name)
	}
	if n.faultArmed && name == "term.pre" {
		// setTerm has no seam of its own: block the rename target here
		n.blockRename(n.faultTerm, 0)
	}
}

// c05Granting is the repository's own seam, called after "vote.pre" and before
// the value is persisted; used only to make the coming rename fail.
func c05Granting(s *storage, term, candidate uint64) error {
	if v, ok := c05Owners.Load(s); ok {
		n := v.(*c05Node)
		if n.armed && n.faultArmed {
			n.blockRename(term, candidate)
		}
		return nil
	}
	return c05PrevGranting(s, term, candidate)
}

// ---------------------------------------------------------------- node

type c05WireObs struct {
	req      voteReq
	diskTerm uint64
	diskVote uint64
	diskErr  error
}

type c05Node struct {
	w   *c05Worker
	dir string
	r   *Raft

	armed      bool
	capture    func(point string)
	fired      []string
	faultArmed bool
	faultTerm  uint64
	faultDir   string
	logTouched bool
	postProbe  bool        // election running: read the directory when setVotedFor is about to return
	postObs    *c05WireObs // what it held

	wg   sync.WaitGroup
	mu   sync.Mutex
	wire []c05WireObs
}

// blockRename makes os.Rename(<cur>.term, <term>-<cand>.term) fail (EISDIR /
// "file exists") without touching the current file: the target name is
// occupied by a directory.  The directory is removed right after the event.
func (n *c05Node) blockRename(term, cand uint64) {
	p := valueFile(n.dir, ".term", term, cand)
	if err := os.Mkdir(p, 0700); err == nil {
		n.faultDir = p
	}
}

func (n *c05Node) clearFault() {
	n.faultArmed = false
	if n.faultDir != "" {
		_ = os.Remove(n.faultDir)
		n.faultDir = ""
	}
}

// c05Open is a process start on dir: the real New (openStorage inside).
func (w *c05Worker) open(dir string) (*c05Node, error) {
	r, err := New(c05Options(), nil, dir)
	if err != nil {
		return nil, err
	}
	n := &c05Node{w: w, dir: dir, r: r}
	r.dialFn = n.dial
	r.cnd = &candidate{Raft: r}
	c05Owners.Store(r.storage, n)
	c05Owners.Store(r.storage.termVal, n)
	w.live = append(w.live, n)
	w.st.Boots++
	return n, nil
}

func (n *c05Node) close() {
	if n.r == nil {
		return
	}
	c05Owners.Delete(n.r.storage)
	c05Owners.Delete(n.r.storage.termVal)
	for _, p := range n.r.connPools {
		p.closeAll()
	}
	n.wg.Wait()
	n.r.timer.stop()
	_ = n.r.storage.log.Close()
	n.r = nil
}

// dial plays the network for candidate.startElection: an in-memory pipe whose
// far end answers the identity handshake and reads the vote request from the
// wire, noting what the candidate's directory holds at that very moment.
func (n *c05Node) dial(network, address string, timeout time.Duration) (net.Conn, error) {
	c1, c2 := net.Pipe()
	n.wg.Add(1)
	go n.peer(c2)
	return c1, nil
}

func (n *c05Node) peer(c net.Conn) {
	defer n.wg.Done()
	defer c.Close()
	br := bufio.NewReader(c)
	for {
		typ, err := readUint8(br)
		if err != nil {
			return
		}
		switch rpcType(typ) {
		case rpcIdentity:
			req := &identityReq{}
			if err := req.decode(br); err != nil {
				return
			}
			resp := &identityResp{resp{0, success, nil}}
			if err := resp.encode(c); err != nil {
				return
			}
		case rpcVote:
			req := &voteReq{}
			if err := req.decode(br); err != nil {
				return
			}
			t, v, derr := c05ReadDisk(n.dir)
			n.mu.Lock()
			n.wire = append(n.wire, c05WireObs{*req, t, v, derr})
			n.mu.Unlock()
			resp := &voteResp{resp{req.term, alreadyVoted, nil}}
			if err := resp.encode(c); err != nil {
				return
			}
		default:
			return
		}
	}
}

// c05ReadDisk is "re-reading the directory now": a fresh openValue.
func c05ReadDisk(dir string) (term, vote uint64, err error) {
	v, err := openValue(dir, ".term")
	if err != nil {
		return 0, 0, err
	}
	term, vote = v.get()
	return term, vote, nil
}

// ---------------------------------------------------------------- outcome of one event

type c05Outcome struct {
	Replied  bool
	Result   rpcResult
	Term     uint64 // term carried by the reply (rpcType.createResp(...).getTerm())
	Panicked bool   // the handler panicked: the node process is gone
	PanicMsg string
	Skipped  bool
	Fired    []string
	Wire     []c05WireObs
	Post     *c05WireObs // election: the directory when setVotedFor was about to return
}

func c05ResultName(r rpcResult) string {
	switch r {
	case success:
		return "success"
	case staleTerm:
		return "staleTerm"
	case alreadyVoted:
		return "alreadyVoted"
	case leaderKnown:
		return "leaderKnown"
	case logNotUptodate:
		return "logNotUptodate"
	case unexpectedErr:
		return "unexpectedErr"
	case 0:
		return "none"
	}
	return fmt.Sprintf("result(%d)", uint8(r))
}

func (n *c05Node) exec(ev *c05Event) (o c05Outcome) {
	r := n.r
	n.fired = n.fired[:0]
	n.armed = true
	defer func() {
		n.armed = false
		o.Fired = append([]string(nil), n.fired...)
	}()
	guard := func(fn func()) {
		defer func() {
			if v := recover(); v != nil {
				o.Panicked = true
				o.PanicMsg = fmt.Sprint(v)
			}
		}()
		fn()
	}
	switch ev.Type {
	case "vote":
		rp := &rpc{
			req: &voteReq{
				req:          req{ev.Term, ev.Src},
				lastLogIndex: ev.LastLogIndex,
				lastLogTerm:  ev.LastLogTerm,
				transfer:     ev.Transfer,
			},
			done: make(chan struct{}),
		}
		guard(func() { r.replyRPC(rp) })
		if rp.resp != nil {
			o.Replied, o.Result, o.Term = true, rp.resp.getResult(), rp.resp.getTerm()
		}
	case "heartbeat":
		guard(func() {
			rq := &appendReq{req: req{ev.Term, ev.Src}, prevLogIndex: r.lastLogIndex, prevLogTerm: r.lastLogTerm}
			res, err := r.onRequest(rq, nil)
			resp := rpcAppendEntries.createResp(r, res, err)
			o.Replied, o.Result, o.Term = true, resp.getResult(), resp.getTerm()
			if res == unexpectedErr {
				panic(err) // as replyRPC does
			}
		})
	case "election":
		if r.state == Leader {
			o.Skipped = true
			return
		}
		// follower.onTimeout / onTimeoutNowRequest
		r.setLeader(0)
		r.setState(Candidate)
		c := r.cnd
		c.transfer = ev.Transfer
		n.postProbe, n.postObs = true, nil
		guard(func() { c.startElection() })
		n.postProbe, o.Post = false, n.postObs
		if !o.Panicked {
			want := 0
			for _, nd := range r.configs.Latest.Nodes {
				if nd.Voter {
					want++
				}
			}
			timeout := time.After(20 * time.Second)
			for i := 0; i < want; i++ {
				select {
				case resp := <-c.respCh:
					if resp.from == r.nid && resp.err == nil {
						o.Replied, o.Result, o.Term = true, resp.getResult(), resp.getTerm()
					}
					guard(func() { c.onVoteResult(resp) })
				case <-timeout:
					o.Panicked, o.PanicMsg = true, "harness: vote responses did not arrive"
					i = want
				}
			}
		}
		n.mu.Lock()
		o.Wire = append([]c05WireObs(nil), n.wire...)
		n.wire = n.wire[:0]
		n.mu.Unlock()
	case "setTerm":
		guard(func() { r.storage.setTerm(ev.Term) })
	case "setVotedFor":
		guard(func() { r.storage.setVotedFor(ev.Term, ev.Src) })
	default:
		o.Skipped = true
	}
	return
}

// ---------------------------------------------------------------- directories

func c05CopyDir(src, dst string) error {
	if err := os.Mkdir(dst, 0700); err != nil {
		return err
	}
	ents, err := ioutil.ReadDir(src)
	if err != nil {
		return err
	}
	for _, e := range ents {
		s, d := filepath.Join(src, e.Name()), filepath.Join(dst, e.Name())
		if e.IsDir() {
			if err := c05CopyDir(s, d); err != nil {
				return err
			}
			continue
		}
		// The files of a storage directory are immutable in these runs: the
		// value files are empty (the NAME is the value; a later rename in src
		// does not touch the entry in dst) and the log segments are never
		// written (no event appends; guarded by c05Node.logTouched).  A hard
		// link is therefore a faithful copy; fall back to a byte copy.
		if err := os.Link(s, d); err == nil {
			continue
		}
		b, err := ioutil.ReadFile(s)
		if err != nil {
			return err
		}
		if err := ioutil.WriteFile(d, b, 0600); err != nil {
			return err
		}
	}
	return nil
}

type c05TplKey struct{ li, lt, term, vote uint64 }

var (
	c05TplMu   sync.Mutex
	c05TplDirs = map[c05TplKey]string{}
	c05TplRoot string
)

func c05Config() Config {
	return Config{
		Nodes: map[uint64]Node{
			c05Self: {ID: c05Self, Addr: "c05-self:7001", Voter: true},
			c05A:    {ID: c05A, Addr: "c05-a:7002", Voter: true},
			c05B:    {ID: c05B, Addr: "c05-b:7003", Voter: true},
		},
		Index: 1, Term: 1,
	}
}

// c05Template builds (once) a storage directory holding the persistent part of
// a voter state with the real code: SetIdentity, openStorage, bootstrap,
// appendEntry, setTerm, setVotedFor.  Cases start from a copy of it.
func c05Template(li, lt, term, vote uint64) (string, error) {
	k := c05TplKey{li, lt, term, vote}
	c05TplMu.Lock()
	defer c05TplMu.Unlock()
	if d, ok := c05TplDirs[k]; ok {
		return d, nil
	}
	if li < 1 || lt < 1 || term < 1 {
		return "", fmt.Errorf("c05: voter needs lastLogIndex>=1, lastLogTerm>=1, term>=1")
	}
	dir := filepath.Join(c05TplRoot, fmt.Sprintf("tpl-%d-%d-%d-%d", li, lt, term, vote))
	if err := os.Mkdir(dir, 0700); err != nil {
		return "", err
	}
	if err := SetIdentity(dir, c05CID, c05Self); err != nil {
		return "", err
	}
	s, err := openStorage(dir, c05Options())
	if err != nil {
		return "", err
	}
	err = func() (err error) {
		defer func() {
			if v := recover(); v != nil {
				err = fmt.Errorf("c05: building template: %v", v)
			}
		}()
		if err := s.bootstrap(c05Config()); err != nil {
			return err
		}
		for i := uint64(2); i <= li; i++ {
			et := lt
			if i < li && lt > 1 {
				et = lt - 1
			}
			s.appendEntry(&entry{index: i, term: et, typ: entryNop})
		}
		if li > 1 {
			s.commitLog(li)
		} else if lt != 1 {
			return fmt.Errorf("c05: log (1,%d) cannot be built: index 1 is the bootstrap config of term 1", lt)
		}
		s.setTerm(term)
		if vote != 0 {
			s.setVotedFor(term, vote)
		}
		return nil
	}()
	if cerr := s.log.Close(); err == nil {
		err = cerr
	}
	if err != nil {
		return "", err
	}
	c05TplDirs[k] = dir
	return dir, nil
}

// ---------------------------------------------------------------- worker

type c05Worker struct {
	id    int
	root  string
	seq   int
	live  []*c05Node
	dirs  []string
	trace bool
	st    c05Stats
}

func (w *c05Worker) newDir() string {
	w.seq++
	d := filepath.Join(w.root, fmt.Sprintf("d%d", w.seq))
	w.dirs = append(w.dirs, d)
	return d
}

func (w *c05Worker) cleanup() {
	for _, n := range w.live {
		n.close()
	}
	w.live = w.live[:0]
	for _, d := range w.dirs {
		_ = os.RemoveAll(d)
	}
	w.dirs = w.dirs[:0]
}

// bootVoter starts a node in voter state v: persistent part from the template
// (copy == the files a previous incarnation left), volatile part through the
// real setters.
func (w *c05Worker) bootVoter(v c05Voter) (*c05Node, error) {
	tpl, err := c05Template(v.LogIndex, v.LogTerm, v.Term, v.VotedFor)
	if err != nil {
		return nil, err
	}
	dir := w.newDir()
	if err := c05CopyDir(tpl, dir); err != nil {
		return nil, err
	}
	n, err := w.open(dir)
	if err != nil {
		return nil, err
	}
	if n.r.term != v.Term || n.r.votedFor != v.VotedFor || n.r.lastLogIndex != v.LogIndex || n.r.lastLogTerm != v.LogTerm {
		return nil, fmt.Errorf("c05: voter state not established: got term=%d vote=%d log=(%d,%d) want %+v",
			n.r.term, n.r.votedFor, n.r.lastLogIndex, n.r.lastLogTerm, v)
	}
	switch v.State {
	case "C":
		n.r.setState(Candidate)
	case "L":
		n.r.setState(Leader)
	default:
		n.r.setState(Follower)
	}
	n.r.setLeader(v.Leader)
	return n, nil
}

// snapshot copies the directory as it is at this instant (the crash image).
func (w *c05Worker) snapshot(dir string) (string, error) {
	d := w.newDir()
	if err := c05CopyDir(dir, d); err != nil {
		return "", err
	}
	return d, nil
}

// c05Listing names what the top level of a storage directory holds (the value
// files carry their content in their names); used to recognise crash images
// that are identical to one already taken during the same event.
func c05Listing(dir string) string {
	f, err := os.Open(dir)
	if err != nil {
		return "?" + err.Error()
	}
	names, err := f.Readdirnames(-1)
	_ = f.Close()
	if err != nil {
		return "?" + err.Error()
	}
	sort.Strings(names)
	return strings.Join(names, "|")
}
