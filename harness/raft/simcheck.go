// +build verif

package raft

// Glue between the E-SIM explorer and the per-property checks: run a list of
// scenarios, filter the findings by the oracles the property owns, write the
// evidence.

import (
	"encoding/json"
	"fmt"
	"os"
	"sort"
	"strings"
	"time"
)

type simCheckSpec struct {
	Prop      string
	Oracles   []string                      // oracles whose findings are violations of this property
	Scenarios func(tier string) []*simScenario // scenarios (with bounds) per tier
	Budget    func(tier string) time.Duration // wall-clock budget for the whole check
	Note      string
	Assume    []string
	// Vacuity: statistics that must be non-zero for the run to count as having reached its subject
	MustReach []string
	// Extra runs supplementary passes and may add coverage keys / violations
	Extra func(run *vkRun, tier string)
}

func cloneScenario(sc *simScenario) *simScenario {
	b, _ := json.Marshal(sc)
	var c simScenario
	_ = json.Unmarshal(b, &c)
	return &c
}

func runSimCheck(spec *simCheckSpec, args []string) int {
	tier := vkTier(args)
	run := vkNewRun(spec.Prop, tier, "model_checking")
	run.Assumptions = append([]string{
		"bounded exploration: cluster sizes, terms, log lengths and the deviation bound are those listed under coverage.scenarios",
		"message contents come only from real senders (no Byzantine inputs); storage and FSM do not return errors",
		"replication control flow is the driver skeleton of DESIGN.md 2.3 (all request/response bytes and index updates come from the real replication methods)",
		"time is virtual: timers fire only as explorer events",
	}, spec.Assume...)
	scs := spec.Scenarios(tier)
	total := spec.Budget(tier)
	if v := os.Getenv("VERIF_BUDGET_S"); v != "" {
		var s int
		fmt.Sscanf(v, "%d", &s)
		total = time.Duration(s) * time.Second
	}
	start := time.Now()
	own := map[string]bool{}
	for _, o := range spec.Oracles {
		own[o] = true
	}
	var scenCov []map[string]interface{}
	states, trans, validated := 0, 0, 0
	exhaustive := true
	var samples []interface{}
	other := map[string]int{}
	var harnessErrs []string
	for i, sc := range scs {
		remaining := total - time.Since(start)
		share := remaining / time.Duration(len(scs)-i)
		if share < 5*time.Second {
			share = 5 * time.Second
		}
		res := explore(sc, share, 0)
		states += res.States
		trans += res.Transitions
		validated += res.Validated
		if !res.Exhaustive {
			exhaustive = false
		}
		reached := map[string]int{}
		for k, v := range res.Stats {
			reached[k] = v
		}
		vacuous := []string{}
		for _, k := range spec.MustReach {
			if res.Stats[k] == 0 {
				vacuous = append(vacuous, k)
			}
		}
		scenCov = append(scenCov, map[string]interface{}{
			"name": sc.Name, "nodes": sc.Opt.Nodes, "voters": sc.Opt.Voters, "nonvoters": sc.Opt.Nonvoters,
			"seed_script": sc.Script, "deviation_bound": sc.MaxDev, "deviation_bound_completed": res.DevCompleted,
			"states": res.States, "transitions": res.Transitions, "max_depth": res.MaxDepth,
			"exhaustive": res.Exhaustive, "cap": res.Capped, "reached": reached, "not_reached": vacuous,
			"replay_hash_mismatches": res.Mismatches, "maporder_steps_repeated": res.OrderSteps, "maporder_extra_outcomes": res.OrderAlts, "worker_deaths": res.WorkerDeaths, "wall_s": res.Wall,
			"terminal_states": res.Outcomes["terminal"], "crash_images": res.CrashImages, "crash_points": res.CrashPoints,
		})
		for _, s := range res.Samples {
			if len(samples) < 8 {
				samples = append(samples, map[string]interface{}{"scenario": sc.Name, "history": s})
			}
		}
		for _, f := range res.Findings {
			if own[f.Viol.Oracle] {
				scj, _ := json.Marshal(sc)
				run.Violation(f.Viol.Oracle+":"+f.Viol.Key, f.Viol.Desc, map[string]interface{}{
					"scenario": json.RawMessage(scj), "hist": f.Hist, "oracle": f.Viol.Oracle,
					"history_readable": histStrings(f.Hist),
				})
			} else {
				other[f.Viol.Oracle+":"+f.Viol.Key]++
			}
		}
		for _, e := range res.Errors {
			if len(harnessErrs) < 10 {
				harnessErrs = append(harnessErrs, sc.Name+": "+e)
			}
		}
		fmt.Printf("  scenario %-16s states=%-8d transitions=%-9d depth=%-3d dev<=%d completed=%d exhaustive=%v %s wall=%.1fs\n",
			sc.Name, res.States, res.Transitions, res.MaxDepth, sc.MaxDev, res.DevCompleted, res.Exhaustive, res.Capped, res.Wall)
	}
	// vacuity guard: the subject of the property must have been reached somewhere
	var vac []string
	for _, k := range spec.MustReach {
		reachedAny := false
		for _, sc := range scenCov {
			if r, ok := sc["reached"].(map[string]int); ok && r[k] > 0 {
				reachedAny = true
			}
		}
		if !reachedAny {
			vac = append(vac, k)
		}
	}
	if len(vac) > 0 {
		exhaustive = false
		run.Cov["vacuous"] = vac
		fmt.Printf("NOTE %s: the exploration never reached %v - the run proves nothing about the property (exhaustive=false)\n", spec.Prop, vac)
	}
	if len(samples) == 0 {
		samples = append(samples, "no history of depth >= 4 was explored")
	}
	run.Cov["states"] = states
	run.Cov["transitions"] = trans
	run.Cov["traces_validated_against_impl"] = validated
	run.Cov["traces_validated_note"] = "there is no separate protocol model: every transition executes the implementation's own handlers on real node objects; the number counts recorded event histories that were re-executed from scratch on the implementation (fresh nodes, fresh storage) and reproduced the recorded canonical state hash. The only modelled control flow is the replication driver skeleton (DESIGN.md 2.3)"
	run.Cov["samples"] = samples
	run.Cov["exhaustive"] = exhaustive
	run.Cov["scenarios"] = scenCov
	run.Cov["oracles"] = spec.Oracles
	if len(other) > 0 {
		keys := []string{}
		for k := range other {
			keys = append(keys, k)
		}
		sort.Strings(keys)
		run.Cov["findings_of_other_properties_seen"] = keys
	}
	if len(harnessErrs) > 0 {
		run.Cov["harness_errors"] = harnessErrs
	}
	if spec.Note != "" {
		run.Cov["note"] = spec.Note
	}
	if spec.Extra != nil {
		spec.Extra(run, tier)
	}
	return run.Finish()
}

func histStrings(h []simEvent) []string {
	var out []string
	for _, e := range h {
		out = append(out, e.String())
	}
	return out
}

func joinU(ids []uint64) string {
	var s []string
	for _, i := range ids {
		s = append(s, fmt.Sprint(i))
	}
	return strings.Join(s, ",")
}
