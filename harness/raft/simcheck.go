//go:build verif
// +build verif

package raft

// Glue between the E-SIM explorer and the per-property checks: run a list of
// scenarios, filter the findings by the oracles the property owns, write the
// evidence.

import (
	"encoding/json"
	"fmt"
	"os"
	"sort"
	"strings"
	"time"
)

type simCheckSpec struct {
	Prop      string
	Oracles   []string                         // oracles whose findings are violations of this property
	Scenarios func(tier string) []*simScenario // scenarios (with bounds) per tier
	Budget    func(tier string) time.Duration  // wall-clock budget for the whole check
	Note      string
	Assume    []string
	// Vacuity: statistics that must be non-zero for the run to count as having reached its subject
	MustReach []string
	// Extra runs supplementary passes and may add coverage keys / violations
	Extra func(run *vkRun, tier string)
}

func cloneScenario(sc *simScenario) *simScenario {
	b, _ := json.Marshal(sc)
	var c simScenario
	_ = json.Unmarshal(b, &c)
	return &c
}

func runSimCheck(spec *simCheckSpec, args []string) int {
	tier := vkTier(args)
	run := vkNewRun(spec.Prop, tier, "model_checking")
	run.Assumptions = append([]string{
		"bounded exploration: cluster sizes, terms, log lengths and the deviation bound are those listed under coverage.scenarios",
		"message contents come only from real senders (no Byzantine inputs); storage and FSM do not return errors",
		"replication control flow is the driver skeleton of DESIGN.md 2.3 (all request/response bytes and index updates come from the real replication methods)",
		"time is virtual: timers fire only as explorer events",
	}, spec.Assume...)
	scs := spec.Scenarios(tier)
	total := spec.Budget(tier)
	if v := os.Getenv("VERIF_BUDGET_S"); v != "" {
		var s int
		fmt.Sscanf(v, "%d", &s)
		total = time.Duration(s) * time.Second
	}
	start := time.Now()
	own := map[string]bool{}
	for _, o := range spec.Oracles {
		own[o] = true
	}
	var scenCov []map[string]interface{}
	states, trans, validated := 0, 0, 0
	exhaustive := true
	var samples []interface{}
	other := map[string]int{}
	var harnessErrs []string

	// Iterative deepening of the deviation bound ACROSS scenarios: every scenario is
	// first explored completely with at most 1 deviation, then with 2, ... up to its
	// own bound, so that the cheap low bounds of all scenarios are finished before
	// time is spent on the expensive ones.  The last run of a scenario is the one
	// reported (it contains the lower levels).
	maxD := 0
	for _, sc := range scs {
		if sc.MaxDev > maxD {
			maxD = sc.MaxDev
		}
	}
	last := map[string]*exploreResult{}
	lastDev := map[string]int{}
	capped := map[string]bool{}
	for d := 1; d <= maxD; d++ {
		var elig []*simScenario
		for _, sc := range scs {
			if sc.MaxDev >= d && !capped[sc.Name] {
				elig = append(elig, sc)
			}
		}
		remaining := total - time.Since(start)
		levelBudget := remaining
		if d < maxD {
			levelBudget = remaining * 50 / 100
		}
		levelStart := time.Now()
		for i, sc := range elig {
			left := levelBudget - time.Since(levelStart)
			share := left / time.Duration(len(elig)-i)
			if share < 3*time.Second {
				share = 3 * time.Second
			}
			if total-time.Since(start) < 2*time.Second {
				capped[sc.Name] = true
				continue
			}
			c := cloneScenario(sc)
			c.MaxDev = d
			res := explore(c, share, 0)
			if old := last[sc.Name]; old != nil {
				// findings of shallower runs stay (a deeper run finds them again unless it is capped)
				res.Findings = append(res.Findings, old.Findings...)
			}
			last[sc.Name], lastDev[sc.Name] = res, d
			if !res.Exhaustive {
				capped[sc.Name] = true
			}
		}
	}
	// left-over budget: scenarios that were cut off at some level get one more run at that level with an equal share
	// of what remains (a level that was never started is started now)
	if os.Getenv("VERIF_NORETRY") == "" {
		var again []*simScenario
		for _, sc := range scs {
			if capped[sc.Name] {
				again = append(again, sc)
			}
		}
		for i, sc := range again {
			left := total - time.Since(start)
			share := left / time.Duration(len(again)-i)
			old := last[sc.Name]
			if share < 8*time.Second || (old != nil && share < time.Duration(old.Wall*1.3*float64(time.Second))) {
				continue
			}
			d := lastDev[sc.Name]
			if d == 0 {
				d = 1
			}
			c := cloneScenario(sc)
			c.MaxDev = d
			res := explore(c, share, 0)
			if old != nil {
				res.Findings = append(res.Findings, old.Findings...)
				if !res.Exhaustive && res.States < old.States {
					// the earlier run got further: keep its numbers, and whatever this one found
					old.Findings = res.Findings
					continue
				}
			}
			last[sc.Name], lastDev[sc.Name] = res, d
		}
	}
	for _, sc := range scs {
		res := last[sc.Name]
		if res == nil {
			exhaustive = false
			scenCov = append(scenCov, map[string]interface{}{"name": sc.Name, "not_run": "time budget exhausted before this scenario was started"})
			continue
		}
		states += res.States
		trans += res.Transitions
		validated += res.Validated
		if !res.Exhaustive || lastDev[sc.Name] < sc.MaxDev {
			exhaustive = false
		}
		reached := map[string]int{}
		for k, v := range res.Stats {
			reached[k] = v
		}
		vacuous := []string{}
		for _, k := range spec.MustReach {
			if res.Stats[k] == 0 {
				vacuous = append(vacuous, k)
			}
		}
		mode := "free-order (every interleaving of internal events; faults/timeouts/client operations cost deviations)"
		if sc.Menu.OrderCost {
			mode = "delay-bounded (default schedule free; every departure from it, fault, timeout or client operation costs a deviation)"
		}
		scenCov = append(scenCov, map[string]interface{}{
			"name": sc.Name, "nodes": sc.Opt.Nodes, "voters": sc.Opt.Voters, "nonvoters": sc.Opt.Nonvoters, "mode": mode, "final_check": sc.Final,
			"seed_script": sc.Script, "deviation_bound": sc.MaxDev, "deviation_bound_attempted": lastDev[sc.Name], "deviation_bound_completed": res.DevCompleted,
			"states": res.States, "transitions": res.Transitions, "max_depth": res.MaxDepth,
			"exhaustive": res.Exhaustive && lastDev[sc.Name] == sc.MaxDev, "cap": res.Capped, "reached": reached, "not_reached": vacuous,
			"replay_hash_mismatches": res.Mismatches, "maporder_steps_repeated": res.OrderSteps, "maporder_extra_outcomes": res.OrderAlts, "worker_deaths": res.WorkerDeaths, "wall_s": res.Wall, "transitions_chained": res.Chained,
			"terminal_states": res.Outcomes["terminal"], "crash_images": res.CrashImages, "crash_points": res.CrashPoints,
		})
		for _, s := range res.Samples {
			if len(samples) < 8 {
				samples = append(samples, map[string]interface{}{"scenario": sc.Name, "history": s})
			}
		}
		seenF := map[string]bool{}
		for _, f := range res.Findings {
			fk := f.Viol.Oracle + ":" + f.Viol.Key
			if seenF[fk] {
				continue
			}
			seenF[fk] = true
			if own[f.Viol.Oracle] {
				scj, _ := json.Marshal(sc)
				run.Violation(fk, f.Viol.Desc, map[string]interface{}{
					"scenario": json.RawMessage(scj), "hist": f.Hist, "oracle": f.Viol.Oracle,
					"history_readable": histStrings(f.Hist), "final": f.Viol.Final, "prefix": f.Viol.Prefix,
				})
			} else {
				other[fk]++
			}
		}
		for _, e := range res.Errors {
			if len(harnessErrs) < 10 {
				harnessErrs = append(harnessErrs, sc.Name+": "+e)
			}
		}
		fmt.Printf("  scenario %-34s states=%-8d transitions=%-9d depth=%-3d dev<=%d attempted=%d completed=%d exhaustive=%v %s wall=%.1fs\n",
			sc.Name, res.States, res.Transitions, res.MaxDepth, sc.MaxDev, lastDev[sc.Name], res.DevCompleted, res.Exhaustive, res.Capped, res.Wall)
	}
	// vacuity guard: the subject of the property must have been reached somewhere
	var vac []string
	for _, k := range spec.MustReach {
		reachedAny := false
		for _, sc := range scenCov {
			if r, ok := sc["reached"].(map[string]int); ok && r[k] > 0 {
				reachedAny = true
			}
		}
		if !reachedAny {
			vac = append(vac, k)
		}
	}
	if len(vac) > 0 {
		exhaustive = false
		run.Cov["vacuous"] = vac
		fmt.Printf("NOTE %s: the exploration never reached %v - the run proves nothing about the property (exhaustive=false)\n", spec.Prop, vac)
	}
	if len(samples) == 0 {
		samples = append(samples, "no history of depth >= 4 was explored")
	}
	run.Cov["states"] = states
	run.Cov["transitions"] = trans
	run.Cov["traces_validated_against_impl"] = validated
	run.Cov["traces_validated_note"] = "there is no separate protocol model: every transition executes the implementation's own handlers on real node objects; the number counts recorded event histories that were re-executed from scratch on the implementation (fresh nodes, fresh storage) and reproduced the recorded canonical state hash. The only modelled control flow is the replication driver skeleton (DESIGN.md 2.3)"
	run.Cov["samples"] = samples
	run.Cov["exhaustive"] = exhaustive
	run.Cov["scenarios"] = scenCov
	run.Cov["oracles"] = spec.Oracles
	if len(other) > 0 {
		keys := []string{}
		for k := range other {
			keys = append(keys, k)
		}
		sort.Strings(keys)
		run.Cov["findings_of_other_properties_seen"] = keys
	}
	if len(harnessErrs) > 0 {
		run.Cov["harness_errors"] = harnessErrs
	}
	if spec.Note != "" {
		run.Cov["note"] = spec.Note
	}
	if spec.Extra != nil {
		spec.Extra(run, tier)
	}
	return run.Finish()
}

func histStrings(h []simEvent) []string {
	var out []string
	for _, e := range h {
		out = append(out, e.String())
	}
	return out
}

func joinU(ids []uint64) string {
	var s []string
	for _, i := range ids {
		s = append(s, fmt.Sprint(i))
	}
	return strings.Join(s, ",")
}
