//go:build verif
// +build verif

package raft

// C20 infrastructure: an in-memory network (buffered, TCP-like connections
// with per-direction byte accounting), a tiny FSM, and helpers that build real
// nodes (SetIdentity + storage.bootstrap + New + Serve) on scratch
// directories.  Nothing here installs verifHooks or creates simulated worlds.

import (
	"bytes"
	"context"
	"crypto/sha256"
	"encoding/hex"
	"errors"
	"fmt"
	"io"
	"io/ioutil"
	"net"
	"os"
	"sync"
	"time"
)

// ---------------------------------------------------------------- connections

type c20Addr string

func (a c20Addr) Network() string { return "c20" }
func (a c20Addr) String() string  { return string(a) }

type c20Timeout struct{}

func (c20Timeout) Error() string   { return "c20net: i/o timeout" }
func (c20Timeout) Timeout() bool   { return true }
func (c20Timeout) Temporary() bool { return true }

// c20Pipe is one direction of a connection.
type c20Pipe struct {
	mu      sync.Mutex
	cond    *sync.Cond
	buf     []byte
	wclosed bool // writing end closed
	rclosed bool // reading end closed
	rdl     time.Time

	written  int    // bytes passed to Write (accepted or not)
	late     int    // of those: written after the reading end was closed
	consumed int    // bytes handed out by Read
	all      []byte // copy of everything written (bounded)
}

func c20NewPipe() *c20Pipe {
	p := &c20Pipe{}
	p.cond = sync.NewCond(&p.mu)
	return p
}

// c20End is one end of a connection (a net.Conn).
type c20End struct {
	rd, wr        *c20Pipe
	local, remote c20Addr
}

func (e *c20End) Read(b []byte) (int, error) {
	p := e.rd
	p.mu.Lock()
	defer p.mu.Unlock()
	for {
		if p.rclosed {
			return 0, io.ErrClosedPipe
		}
		if len(p.buf) > 0 {
			n := copy(b, p.buf)
			p.buf = p.buf[n:]
			p.consumed += n
			return n, nil
		}
		if p.wclosed {
			return 0, io.EOF
		}
		if !p.rdl.IsZero() {
			d := time.Until(p.rdl)
			if d <= 0 {
				return 0, c20Timeout{}
			}
			t := time.AfterFunc(d, func() {
				p.mu.Lock()
				p.cond.Broadcast()
				p.mu.Unlock()
			})
			p.cond.Wait()
			t.Stop()
		} else {
			p.cond.Wait()
		}
	}
}

// Write never blocks.  Like the first write on a TCP connection whose peer
// has gone away, a write towards a closed reading end succeeds and the bytes
// vanish; they are still accounted (written, late) so that the oracle sees
// every byte a dialer tried to send.
func (e *c20End) Write(b []byte) (int, error) {
	p := e.wr
	p.mu.Lock()
	defer p.mu.Unlock()
	if p.wclosed {
		return 0, io.ErrClosedPipe
	}
	p.written += len(b)
	if len(p.all) < 1<<12 {
		p.all = append(p.all, b...)
	}
	if p.rclosed {
		p.late += len(b)
		return len(b), nil
	}
	p.buf = append(p.buf, b...)
	p.cond.Broadcast()
	return len(b), nil
}

func (e *c20End) Close() error {
	e.rd.mu.Lock()
	e.rd.rclosed = true
	e.rd.buf = nil
	e.rd.cond.Broadcast()
	e.rd.mu.Unlock()
	e.wr.mu.Lock()
	e.wr.wclosed = true
	e.wr.cond.Broadcast()
	e.wr.mu.Unlock()
	return nil
}

func (e *c20End) closed() bool {
	e.wr.mu.Lock()
	defer e.wr.mu.Unlock()
	return e.wr.wclosed
}

func (e *c20End) LocalAddr() net.Addr  { return e.local }
func (e *c20End) RemoteAddr() net.Addr { return e.remote }
func (e *c20End) SetDeadline(t time.Time) error {
	_ = e.SetReadDeadline(t)
	return nil
}
func (e *c20End) SetReadDeadline(t time.Time) error {
	e.rd.mu.Lock()
	e.rd.rdl = t
	e.rd.cond.Broadcast()
	e.rd.mu.Unlock()
	return nil
}
func (e *c20End) SetWriteDeadline(t time.Time) error { return nil }

// c20ConnRec is the network's record of one connection.
type c20ConnRec struct {
	seq    int
	from   string // dialing host
	addr   string // address dialled
	owner  string // tag of the listener that accepted it
	cli    *c20End
	srv    *c20End
	c2s    *c20Pipe
	s2c    *c20Pipe
	opened time.Time
}

type c20ConnStat struct {
	Seq         int    `json:"seq"`
	From        string `json:"from"`
	Addr        string `json:"addr"`
	Owner       string `json:"owner"`
	CliWritten  int    `json:"cli_written"`
	CliLate     int    `json:"cli_written_after_srv_close"`
	SrvConsumed int    `json:"srv_consumed"`
	SrvWritten  int    `json:"srv_written"`
	CliClosed   bool   `json:"cli_closed"`
	SrvClosed   bool   `json:"srv_closed"`
	head        []byte // first bytes written by the client
	srvHead     []byte
}

func (c *c20ConnRec) stat() c20ConnStat {
	st := c20ConnStat{Seq: c.seq, From: c.from, Addr: c.addr, Owner: c.owner}
	c.c2s.mu.Lock()
	st.CliWritten, st.CliLate, st.SrvConsumed = c.c2s.written, c.c2s.late, c.c2s.consumed
	st.head = append([]byte(nil), c.c2s.all...)
	st.CliClosed = c.c2s.wclosed
	c.c2s.mu.Unlock()
	c.s2c.mu.Lock()
	st.SrvWritten = c.s2c.written
	st.srvHead = append([]byte(nil), c.s2c.all...)
	st.SrvClosed = c.s2c.wclosed
	c.s2c.mu.Unlock()
	return st
}

// ---------------------------------------------------------------- listeners / network

type c20Listener struct {
	net   *c20Net
	addr  string
	owner string
	ch    chan net.Conn
	done  chan struct{}
	once  sync.Once
}

func (l *c20Listener) Accept() (net.Conn, error) {
	select {
	case <-l.done:
		return nil, errors.New("c20net: listener closed")
	case c := <-l.ch:
		return c, nil
	}
}

func (l *c20Listener) Close() error {
	l.once.Do(func() {
		close(l.done)
		l.net.mu.Lock()
		for a, x := range l.net.routes {
			if x == l {
				delete(l.net.routes, a)
			}
		}
		l.net.mu.Unlock()
	})
	return nil
}

func (l *c20Listener) Addr() net.Addr { return c20Addr(l.addr) }

type c20Net struct {
	mu     sync.Mutex
	routes map[string]*c20Listener // address -> listener currently reachable there
	conns  []*c20ConnRec
	dials  int
	refuse int
	by     map[string]int // dial attempts per dialing host
}

func c20NewNet() *c20Net { return &c20Net{routes: map[string]*c20Listener{}} }

// listen creates a listener reachable at addr; owner is a free-form tag.
func (n *c20Net) listen(addr, owner string) *c20Listener {
	l := &c20Listener{net: n, addr: addr, owner: owner, ch: make(chan net.Conn, 4096), done: make(chan struct{})}
	n.mu.Lock()
	n.routes[addr] = l
	n.mu.Unlock()
	return l
}

// repoint makes addr reach the listener l from now on (new connections only).
func (n *c20Net) repoint(addr string, l *c20Listener) {
	n.mu.Lock()
	if l == nil {
		delete(n.routes, addr)
	} else {
		n.routes[addr] = l
	}
	n.mu.Unlock()
}

func (n *c20Net) dialer(from string) dialFn {
	return func(network, address string, timeout time.Duration) (net.Conn, error) {
		n.mu.Lock()
		n.dials++
		if n.by == nil {
			n.by = map[string]int{}
		}
		n.by[from]++
		l := n.routes[address]
		if l != nil {
			select {
			case <-l.done:
				l = nil
			default:
			}
		}
		if l == nil {
			n.refuse++
			n.mu.Unlock()
			return nil, fmt.Errorf("c20net: dial %s: connection refused", address)
		}
		c2s, s2c := c20NewPipe(), c20NewPipe()
		rec := &c20ConnRec{seq: len(n.conns), from: from, addr: address, owner: l.owner, c2s: c2s, s2c: s2c, opened: time.Now()}
		rec.cli = &c20End{rd: s2c, wr: c2s, local: c20Addr(from), remote: c20Addr(address)}
		rec.srv = &c20End{rd: c2s, wr: s2c, local: c20Addr(address), remote: c20Addr(from)}
		n.conns = append(n.conns, rec)
		n.mu.Unlock()
		select {
		case l.ch <- rec.srv:
		default:
			_ = rec.srv.Close()
			return nil, fmt.Errorf("c20net: dial %s: backlog full", address)
		}
		return rec.cli, nil
	}
}

func (n *c20Net) stats() []c20ConnStat {
	n.mu.Lock()
	recs := append([]*c20ConnRec(nil), n.conns...)
	n.mu.Unlock()
	out := make([]c20ConnStat, len(recs))
	for i, r := range recs {
		out[i] = r.stat()
	}
	return out
}

func (n *c20Net) numDialsFrom(host string) int {
	n.mu.Lock()
	defer n.mu.Unlock()
	return n.by[host]
}

// closeConnsTo closes (from the network side, like a moved IP address) every
// open connection that was dialled to addr.
func (n *c20Net) closeConnsTo(addr string) {
	n.mu.Lock()
	recs := append([]*c20ConnRec(nil), n.conns...)
	n.mu.Unlock()
	for _, r := range recs {
		if r.addr == addr {
			_ = r.cli.Close()
			_ = r.srv.Close()
		}
	}
}

// ---------------------------------------------------------------- fsm

type c20FSM struct {
	mu       sync.Mutex
	updates  [][]byte
	restored [][]byte
}

func (f *c20FSM) Update(cmd []byte) interface{} {
	f.mu.Lock()
	f.updates = append(f.updates, append([]byte(nil), cmd...))
	f.mu.Unlock()
	return len(cmd)
}
func (f *c20FSM) Read(cmd interface{}) interface{} { return nil }

type c20FSMState struct{ b []byte }

func (s c20FSMState) Persist(w io.Writer) error { _, err := w.Write(s.b); return err }
func (s c20FSMState) Release()                  {}

func (f *c20FSM) Snapshot() (FSMState, error) {
	f.mu.Lock()
	defer f.mu.Unlock()
	return c20FSMState{bytes.Join(f.updates, []byte{'\n'})}, nil
}
func (f *c20FSM) Restore(r io.Reader) error {
	b, err := ioutil.ReadAll(r)
	if err != nil {
		return err
	}
	f.mu.Lock()
	f.restored = append(f.restored, b)
	f.updates = nil
	f.mu.Unlock()
	return nil
}
func (f *c20FSM) digest() string {
	f.mu.Lock()
	defer f.mu.Unlock()
	h := sha256.New()
	fmt.Fprintf(h, "u%d;", len(f.updates))
	for _, u := range f.updates {
		fmt.Fprintf(h, "%d:%s;", len(u), u)
	}
	fmt.Fprintf(h, "r%d;", len(f.restored))
	for _, u := range f.restored {
		fmt.Fprintf(h, "%d:%s;", len(u), u)
	}
	return fmt.Sprintf("u%d/r%d/%s", len(f.updates), len(f.restored), hex.EncodeToString(h.Sum(nil)[:4]))
}
func (f *c20FSM) numUpdates() int {
	f.mu.Lock()
	defer f.mu.Unlock()
	return len(f.updates)
}
func (f *c20FSM) has(data string) bool {
	f.mu.Lock()
	defer f.mu.Unlock()
	for _, u := range f.updates {
		if string(u) == data {
			return true
		}
	}
	return false
}

// ---------------------------------------------------------------- nodes

type c20Ident struct {
	CID uint64 `json:"cid"`
	NID uint64 `json:"nid"`
}

func (i c20Ident) String() string { return fmt.Sprintf("(%d,%d)", i.CID, i.NID) }

func c20Options(hb time.Duration) Options {
	return Options{
		HeartbeatTimeout: hb,
		PromoteThreshold: hb,
		ShutdownOnRemove: false,
		Bandwidth:        256 * 1024 * 1024,
		LogSegmentSize:   4096,
		SnapshotsRetain:  1,
	}
}

// c20PrepareDir stores the identity with the real SetIdentity and bootstraps
// the storage with the real storage.bootstrap (as raft_test.go does).
func c20PrepareDir(dir string, id c20Ident, cfg Config, opt Options) error {
	if err := SetIdentity(dir, id.CID, id.NID); err != nil {
		return fmt.Errorf("SetIdentity: %v", err)
	}
	store, err := openStorage(dir, opt)
	if err != nil {
		return fmt.Errorf("openStorage: %v", err)
	}
	c := cfg.clone()
	c.Index, c.Term = 1, 1
	if err := store.bootstrap(c); err != nil {
		return fmt.Errorf("bootstrap: %v", err)
	}
	return store.log.Close()
}

type c20Node struct {
	id       c20Ident
	tag      string
	dir      string
	fsm      *c20FSM
	r        *Raft
	lr       *c20Listener
	serveCh  chan error
	stopped  bool
	serveErr error // what Serve returned (after stop)
}

// c20StartNode creates a real node on dir and runs the real Serve on a
// listener at addr.  It returns once the state loop answers an inspect task
// (so the directory lock is held and the server accepts).
func c20StartNode(nw *c20Net, dir string, id c20Ident, cfg Config, addr, tag string, opt Options) (*c20Node, error) {
	if err := os.MkdirAll(dir, 0700); err != nil {
		return nil, err
	}
	if err := c20PrepareDir(dir, id, cfg, opt); err != nil {
		return nil, err
	}
	return c20LaunchNode(nw, dir, id, addr, tag, opt)
}

func c20LaunchNode(nw *c20Net, dir string, id c20Ident, addr, tag string, opt Options) (*c20Node, error) {
	n := &c20Node{id: id, tag: tag, dir: dir, fsm: &c20FSM{}, serveCh: make(chan error, 1)}
	r, err := New(opt, n.fsm, dir)
	if err != nil {
		return nil, fmt.Errorf("New: %v", err)
	}
	if r.cid != id.CID || r.nid != id.NID {
		return nil, fmt.Errorf("New: identity %d,%d, want %v", r.cid, r.nid, id)
	}
	r.dialFn = nw.dialer(tag)
	n.r = r
	n.lr = nw.listen(addr, tag)
	go func() { n.serveCh <- r.Serve(n.lr) }()
	if err := n.waitServing(10 * time.Second); err != nil {
		return nil, err
	}
	return n, nil
}

func (n *c20Node) waitServing(d time.Duration) error {
	t := inspect{task: newTask(), fn: func(*Raft) {}}
	timer := time.NewTimer(d)
	defer timer.Stop()
	select {
	case n.r.taskCh <- t:
		<-t.Done()
		return nil
	case err := <-n.serveCh:
		n.serveCh <- err
		n.stopped = true
		return fmt.Errorf("Serve returned early: %v", err)
	case <-timer.C:
		return errors.New("node did not start serving in time")
	}
}

// stop shuts the node down with the real Shutdown and waits for Serve.
func (n *c20Node) stop() error {
	if n.stopped {
		return nil
	}
	n.stopped = true
	ctx, cancel := context.WithTimeout(context.Background(), 20*time.Second)
	defer cancel()
	if err := n.r.Shutdown(ctx); err != nil {
		return fmt.Errorf("Shutdown: %v", err)
	}
	err := <-n.serveCh
	_ = n.lr.Close()
	n.serveErr = err
	if err != ErrServerClosed {
		return fmt.Errorf("Serve: %v", err)
	}
	return nil
}

// c20State is what the property speaks about: term, vote, leader, log,
// snapshot, commit (plus the role and what the FSM saw).
type c20State struct {
	Term      uint64 `json:"term"`
	VotedFor  uint64 `json:"voted_for"`
	Leader    uint64 `json:"leader"`
	Role      string `json:"role"`
	LastIndex uint64 `json:"last_index"`
	LastTerm  uint64 `json:"last_term"`
	Commit    uint64 `json:"commit"`
	SnapIndex uint64 `json:"snap_index"`
	SnapTerm  uint64 `json:"snap_term"`
	Log       string `json:"log"`
	FSM       string `json:"fsm"`
	CfgIndex  uint64 `json:"cfg_index"`
}

func (s c20State) String() string {
	return fmt.Sprintf("term=%d vote=%d ldr=%d %s last=%d/%d commit=%d snap=%d/%d cfg@%d log=%s fsm=%s",
		s.Term, s.VotedFor, s.Leader, s.Role, s.LastIndex, s.LastTerm, s.Commit, s.SnapIndex, s.SnapTerm, s.CfgIndex, s.Log, s.FSM)
}

// c20ReadState reads the fields directly; the caller guarantees exclusion
// (inside an inspect task, or after Serve returned).
func c20ReadState(r *Raft, fsm *c20FSM) c20State {
	s := c20State{
		Term: r.term, VotedFor: r.votedFor, Leader: r.leader, Role: r.state.String(),
		LastIndex: r.lastLogIndex, LastTerm: r.lastLogTerm, Commit: r.commitIndex,
		SnapIndex: r.snaps.index, SnapTerm: r.snaps.term, CfgIndex: r.configs.Latest.Index,
	}
	var b bytes.Buffer
	for i := r.log.PrevIndex() + 1; i <= r.lastLogIndex; i++ {
		e := &entry{}
		if err := r.storage.getEntry(i, e); err != nil {
			fmt.Fprintf(&b, "[%d:err %v]", i, err)
			continue
		}
		fmt.Fprintf(&b, "[%d:t%d k%d %q]", e.index, e.term, e.typ, c20Short(e.data, e.typ))
	}
	s.Log = b.String()
	if fsm != nil {
		s.FSM = fsm.digest()
	}
	return s
}

func c20Short(b []byte, typ entryType) string {
	if typ == entryConfig {
		h := sha256.Sum256(b)
		return "cfg#" + hex.EncodeToString(h[:3])
	}
	if len(b) > 16 {
		return string(b[:16]) + "..."
	}
	return string(b)
}

// inspectState reads the state inside the node's own state loop.
func (n *c20Node) inspectState() (c20State, error) {
	var s c20State
	if n.stopped {
		return c20ReadState(n.r, n.fsm), nil
	}
	done := make(chan error, 1)
	go func() { done <- n.r.inspect(func(r *Raft) { s = c20ReadState(r, n.fsm) }) }()
	select {
	case err := <-done:
		return s, err
	case <-time.After(20 * time.Second):
		return s, errors.New("inspect timed out")
	}
}

func c20Config(nodes map[uint64]string) Config {
	c := Config{Nodes: map[uint64]Node{}, Index: 1, Term: 1}
	for id, addr := range nodes {
		c.Nodes[id] = Node{ID: id, Addr: addr, Voter: true}
	}
	return c
}

func c20RemoveAll(dir string) error {
	var err error
	for i := 0; i < 5; i++ {
		if err = os.RemoveAll(dir); err == nil {
			return nil
		}
		time.Sleep(10 * time.Millisecond)
	}
	return err
}
