//go:build verif
// +build verif

package raft

// Lock-step world of the E-SIM explorer (DESIGN.md 2.2): real nodes (real New,
// real Serve / stateLoop / fsm.runLoop / RPC goroutines) whose goroutines park
// at the verif hooks and are advanced one step at a time by the explorer.

import (
	"context"

	"github.com/santhosh-tekuri/raft/log"

	"errors"
	"fmt"
	"io/ioutil"
	"os"
	"path/filepath"
	"runtime"
	"sync"
	"time"
)

type worldOpt struct {
	Nodes       int      // number of node slots (ids 1..Nodes)
	Voters      []uint64 // initial voters
	Nonvoters   []uint64 // initial non-voters
	Unboot      []uint64 // nodes started with identity only (no bootstrap config), e.g. to be added later
	SegmentSize int
	Pad         int   // payload padding (bytes) for update commands
	PromoteNs   int64 // PromoteThreshold in ns (default 1000h)
	QuorumWait  int64 // quorumWait in ns (0 = step down immediately)
	ShutOnRem   bool
	PipeK       int // max outstanding pipelined requests per stream
	Heartbeats  bool
	CID         uint64
	// reductions of the interleaving space (each merges an internal step into
	// the transition that enabled it; see DESIGN.md 2.2 "granularity")
	EagerFSM     bool // the FSM goroutine handles queued items at once (no apply lag)
	EagerLU      bool // the leader consumes replication updates at once
	EagerConnect bool // replication streams (re)connect at once when the peer is reachable
	NoRepl       bool // replication streams never get to run (every append is delayed beyond the horizon): election-only schedules
	Disconnects  bool // "peer disconnected" notifications (server.handleConn -> Raft.disconnected) are explicit events
}

const simVirtualTimer = 1000 * time.Hour

var errSimStuck = errors.New("sim: step did not return to a parked state (stuck step)")

// gate parks one goroutine of a node at a hook.
type gate struct {
	w       *world
	name    string
	parked  bool
	running bool // counted in w.busy
	resume  chan struct{}
}

func newGate(w *world, name string) *gate {
	return &gate{w: w, name: name, resume: make(chan struct{})}
}

// park is called by the gated goroutine.
func (g *gate) park(n *simNode) {
	w := g.w
	w.mu.Lock()
	if n.free {
		w.mu.Unlock()
		return
	}
	g.parked = true
	if g.running {
		g.running = false
		w.busy--
	}
	w.cond.Broadcast()
	w.mu.Unlock()
	<-g.resume
}

// release is called by the explorer; counted=true means the goroutine is
// expected to park (or finish through a done hook) again.
func (g *gate) release(counted bool) {
	w := g.w
	w.mu.Lock()
	g.parked = false
	if counted {
		g.running = true
		w.busy++
	}
	w.mu.Unlock()
	g.resume <- struct{}{}
}

// waitParked blocks until the gated goroutine has arrived at its hook.
func (g *gate) waitParked() error {
	w := g.w
	t := time.AfterFunc(simWatchdog, func() {
		w.mu.Lock()
		w.stuck = true
		w.cond.Broadcast()
		w.mu.Unlock()
	})
	defer t.Stop()
	w.mu.Lock()
	defer w.mu.Unlock()
	for !g.parked && !w.stuck {
		w.cond.Wait()
	}
	if !g.parked {
		return errSimStuck
	}
	return nil
}

func (g *gate) isParked() bool {
	g.w.mu.Lock()
	defer g.w.mu.Unlock()
	return g.parked
}

type simNode struct {
	w    *world
	idx  int
	id   uint64
	dir  string
	addr string

	r    *Raft
	fsm  *recFSM
	up   bool
	free bool // hooks pass through (shutdown / crash in progress)

	loopGate *gate
	fsmGate  *gate
	snapGate *gate
	snapAt   string // hook name the snapshot goroutine is parked at
	snapTask *task  // fsmSnapReq task of the running snapshot goroutine
	snapArgs string // what the running snapshot goroutine captured when it was started

	lis          *simListener
	serveDone    chan struct{}
	serveErr     error
	inc          int // incarnation counter
	abandonedInc int
	dead         bool // could not be restarted
	fsmOpen      bool // the FSM gate passes through (the raft goroutine is waiting for the FSM)

	drivers map[uint64]*driver

	points   []string           // storage points passed in the current step
	imageAt  int                // take a crash image at the imageAt-th point of this step (-1: none)
	image    string             // directory of the image taken
	pending  map[*task]*simTask // outstanding tasks by internal task
	panicked interface{}
}

type world struct {
	mu    sync.Mutex
	cond  *sync.Cond
	busy  int
	stuck bool

	opt     worldOpt
	root    string
	nodes   []*simNode
	conns   []*simConn
	connSeq map[[2]int]int
	blocked map[[2]int]bool
	addr    map[string]int

	ghost   int // index of the node that dies inside the current transition (-1: none)
	clock   int // logical clock: number of transitions executed
	tasks   []*simTask
	nextUpd int
	led     *ledger
	trace   []string
	errs    []string // harness-level errors (stuck steps etc.)
}

// ---------------------------------------------------------------- registry

var (
	simRegMu sync.RWMutex
	simReg   = map[interface{}]*simNode{}
	simTimer sync.Map // *safeTimer -> chan time.Time
)

func simRegister(n *simNode, owners ...interface{}) {
	simRegMu.Lock()
	for _, o := range owners {
		simReg[o] = n
	}
	simRegMu.Unlock()
}

func simUnregister(n *simNode) {
	simRegMu.Lock()
	for k, v := range simReg {
		if v == n {
			delete(simReg, k)
		}
	}
	simRegMu.Unlock()
}

func simLookup(owner interface{}) *simNode {
	simRegMu.RLock()
	n := simReg[owner]
	simRegMu.RUnlock()
	return n
}

var simHooksOnce sync.Once

func simInstallHooks() {
	simHooksOnce.Do(func() {
		log.VerifGuardClosedReads()
		log.VerifSetPointHook(func(name, dir string) {
			if !simVirtualTime {
				return
			}
			simRegMu.RLock()
			var owner *simNode
			cands := map[*simNode]bool{}
			for _, n := range simReg {
				if !n.up {
					continue
				}
				if dir != "" {
					if filepath.Join(n.dir, "log") == dir {
						owner = n
						break
					}
					continue
				}
				// no directory known (segment creation): the one node whose raft loop is running this step
				n.w.mu.Lock()
				running := n.loopGate.running
				n.w.mu.Unlock()
				if running {
					cands[n] = true
				}
			}
			simRegMu.RUnlock()
			if owner == nil && len(cands) == 1 {
				for n := range cands {
					owner = n
				}
			}
			if owner != nil {
				owner.onPoint(name)
			}
		})
		verifHooks.idle = func(r *Raft) {
			if n := simLookup(r); n != nil {
				n.loopGate.park(n)
			}
		}
		verifHooks.fsm = func(fsm *stateMachine) {
			if n := simLookup(fsm); n != nil {
				n.fsmGate.park(n)
			}
		}
		verifHooks.timer = func(t *safeTimer, d time.Duration) time.Duration {
			if !simVirtualTime {
				return d
			}
			if _, ok := simTimer.Load(t); !ok {
				ch := make(chan time.Time, 1)
				simTimer.Store(t, ch)
				t.C = ch
			}
			return simVirtualTimer
		}
		verifHooks.replTakeover = func(r *replication, req *appendReq) bool {
			n := simLookup(r.snaps)
			if n == nil {
				return false
			}
			n.registerDriver(r, req)
			<-r.stopCh
			return true
		}
		verifHooks.spawn = func(r *Raft, kind string) {
			n := simLookup(r)
			if n == nil {
				return
			}
			w := n.w
			w.mu.Lock()
			switch kind {
			case "snap":
				if !n.free {
					n.snapGate.running = true
					w.busy++
				}
			case "repl":
				if !n.free {
					w.busy++
				}
			default:
				w.busy++
			}
			w.mu.Unlock()
		}
		verifHooks.done = func(r *Raft, kind string) {
			n := simLookup(r)
			if n == nil {
				return
			}
			w := n.w
			w.mu.Lock()
			w.busy--
			w.cond.Broadcast()
			w.mu.Unlock()
		}
		verifHooks.point = func(owner interface{}, name string) {
			n := simLookup(owner)
			if n == nil {
				return
			}
			n.onPoint(name)
		}
		verifHooks.pointTask = func(owner interface{}, name string, t *task) {
			n := simLookup(owner)
			if n == nil {
				return
			}
			if name == "snap.enqueued" {
				n.snapTask = t
				n.snapAt = name
				n.snapGate.park(n)
			}
		}
		verifHooks.reply = func(t *task, result interface{}) {
			simReplyHook(t, result)
		}
	})
}

// simVirtualTime is false in the free-running (E-LIVE) passes.
var simVirtualTime = true

func (n *simNode) onPoint(name string) {
	switch name {
	case "snap.start", "snap.finished":
		n.snapAt = name
		n.snapGate.park(n)
		return
	case "fsm.wait":
		// the raft goroutine is about to block until the FSM goroutine has worked off
		// its queue (Raft.lastApplied): it drives the FSM through exactly the queued
		// items, one at a time, so that the FSM is parked again when it continues
		w := n.w
		w.mu.Lock()
		free := n.free
		w.mu.Unlock()
		if free {
			return
		}
		for k := len(n.r.fsm.ch); k > 0; k-- {
			if err := n.fsmGate.waitParked(); err != nil {
				return
			}
			n.fsmGate.release(false)
		}
		_ = n.fsmGate.waitParked()
		return
	case "loop.exit":
		// the raft goroutine leaves stateLoop (shutdown, or a panic is unwinding):
		// Serve's deferred functions wait for the FSM and snapshot goroutines,
		// which therefore must not stay parked
		w := n.w
		w.mu.Lock()
		if n.free {
			w.mu.Unlock()
			return
		}
		n.free = true
		var rel []*gate
		for _, g := range []*gate{n.fsmGate, n.snapGate} {
			if g.parked {
				rel = append(rel, g)
			}
		}
		w.mu.Unlock()
		for _, g := range rel {
			g.release(false)
		}
		return
	}
	// storage mutation point inside a step
	n.points = append(n.points, name)
	if n.imageAt >= 0 && len(n.points)-1 == n.imageAt && n.image == "" {
		n.image = n.w.copyDir(n.dir)
	}
}

func (n *simNode) registerDriver(r *replication, req *appendReq) {
	w := n.w
	d := newDriver(n, r, req)
	w.mu.Lock()
	if n.drivers == nil {
		n.drivers = map[uint64]*driver{}
	}
	n.drivers[r.status.id] = d
	if !n.free {
		w.busy--
		w.cond.Broadcast()
	}
	w.mu.Unlock()
}

// ---------------------------------------------------------------- world

func newWorld(opt worldOpt) *world {
	simInstallHooks()
	if opt.SegmentSize == 0 {
		opt.SegmentSize = 1024
	}
	if opt.PromoteNs == 0 {
		opt.PromoteNs = int64(simVirtualTimer)
	}
	if opt.PipeK == 0 {
		opt.PipeK = 2
	}
	if opt.CID == 0 {
		opt.CID = 7
	}
	w := &world{
		opt:     opt,
		root:    vkScratch("sim"),
		ghost:   -1,
		connSeq: map[[2]int]int{},
		blocked: map[[2]int]bool{},
		addr:    map[string]int{},
	}
	w.cond = sync.NewCond(&w.mu)
	w.led = newLedger(w)
	for i := 0; i < opt.Nodes; i++ {
		n := &simNode{w: w, idx: i, id: uint64(i + 1), addr: fmt.Sprintf("n%d:%d", i+1, 7000+i+1), imageAt: -1}
		n.dir = filepath.Join(w.root, fmt.Sprintf("n%d-0", n.id))
		w.addr[n.addr] = i
		w.nodes = append(w.nodes, n)
	}
	return w
}

func (w *world) raftOptions() Options {
	return Options{
		HeartbeatTimeout: time.Second,
		PromoteThreshold: time.Duration(w.opt.PromoteNs),
		ShutdownOnRemove: w.opt.ShutOnRem,
		Bandwidth:        256 * 1024,
		LogSegmentSize:   w.opt.SegmentSize,
		SnapshotsRetain:  1,
	}
}

func (w *world) initialConfig() Config {
	nodes := map[uint64]Node{}
	for _, id := range w.opt.Voters {
		nodes[id] = Node{ID: id, Addr: w.nodes[id-1].addr, Voter: true}
	}
	for _, id := range w.opt.Nonvoters {
		nodes[id] = Node{ID: id, Addr: w.nodes[id-1].addr}
	}
	return Config{Nodes: nodes, Index: 1, Term: 1}
}

var (
	simTplMu  sync.Mutex
	simTplDir = map[string]string{}
)

// bootDirs creates the storage of every node; the bootstrapped directories
// are built once per process and option set with the real SetIdentity /
// storage.bootstrap and copied for every further world.
func (w *world) bootDirs() error {
	key := fmt.Sprintf("%+v", w.opt)
	simTplMu.Lock()
	tpl, ok := simTplDir[key]
	simTplMu.Unlock()
	if ok {
		for _, n := range w.nodes {
			if err := os.MkdirAll(n.dir, 0700); err != nil {
				return err
			}
			simCopyTree(filepath.Join(tpl, fmt.Sprintf("n%d", n.id)), n.dir)
		}
		return nil
	}
	if err := w.bootDirsReal(); err != nil {
		return err
	}
	tpl = vkScratch("tpl")
	for _, n := range w.nodes {
		d := filepath.Join(tpl, fmt.Sprintf("n%d", n.id))
		if err := os.MkdirAll(d, 0700); err != nil {
			return err
		}
		simCopyTree(n.dir, d)
	}
	simTplMu.Lock()
	simTplDir[key] = tpl
	simTplMu.Unlock()
	return nil
}

// boot creates the storage of every node and starts all of them.
func (w *world) boot() error {
	if err := w.bootDirs(); err != nil {
		return err
	}
	for _, n := range w.nodes {
		if err := n.start(); err != nil {
			return err
		}
	}
	return nil
}

func (w *world) bootDirsReal() error {
	cfg := w.initialConfig()
	for _, n := range w.nodes {
		if err := os.MkdirAll(n.dir, 0700); err != nil {
			return err
		}
		if err := SetIdentity(n.dir, w.opt.CID, n.id); err != nil {
			return err
		}
		if _, ok := cfg.Nodes[n.id]; ok {
			store, err := openStorage(n.dir, w.raftOptions())
			if err != nil {
				return err
			}
			if err := store.bootstrap(cfg.clone()); err != nil {
				return err
			}
			if err := store.log.Close(); err != nil {
				return err
			}
		}
	}
	return nil
}

func (w *world) logf(format string, a ...interface{}) {
	if simTrace {
		w.trace = append(w.trace, fmt.Sprintf(format, a...))
	}
}

var simTrace = false

func (w *world) waitQuiet() error {
	t := time.AfterFunc(simWatchdog, func() {
		w.mu.Lock()
		w.stuck = true
		w.cond.Broadcast()
		w.mu.Unlock()
	})
	w.mu.Lock()
	for w.busy > 0 && !w.stuck {
		w.cond.Wait()
	}
	stuck := w.stuck
	w.mu.Unlock()
	t.Stop()
	if stuck {
		return errSimStuck
	}
	return nil
}

var simWatchdog = 10 * time.Second

func simGoroutineDump() string {
	buf := make([]byte, 1<<20)
	n := runtime.Stack(buf, true)
	return string(buf[:n])
}

// copyDir copies a node directory (without the lock file) to a fresh
// directory under the world's root and returns the new path.
func (w *world) copyDir(src string) string {
	dst, err := ioutil.TempDir(w.root, "img-")
	if err != nil {
		panic(err)
	}
	simCopyTree(src, dst)
	return dst
}

func simCopyTree(src, dst string) {
	entries, err := ioutil.ReadDir(src)
	if err != nil {
		panic(err)
	}
	for _, e := range entries {
		if e.Name() == "lock" || (len(e.Name()) > 4 && e.Name()[:4] == "lock" && filepath.Ext(e.Name()) == ".tmp") {
			continue
		}
		s, d := filepath.Join(src, e.Name()), filepath.Join(dst, e.Name())
		if e.IsDir() {
			if err := os.MkdirAll(d, 0700); err != nil {
				panic(err)
			}
			simCopyTree(s, d)
			continue
		}
		b, err := ioutil.ReadFile(s)
		if err != nil {
			if os.IsNotExist(err) {
				continue
			}
			panic(err)
		}
		if err := ioutil.WriteFile(d, b, 0600); err != nil {
			panic(err)
		}
	}
}

// ---------------------------------------------------------------- node lifecycle

func (n *simNode) start() error {
	w := n.w
	n.fsm = newRecFSM(n)
	r, err := New(w.raftOptions(), n.fsm, n.dir)
	if err != nil {
		if n.inc > 0 {
			// restart on a directory the node itself left behind
			w.led.onStartFailed(n, err)
			n.dead = true
			return nil
		}
		return fmt.Errorf("New(%s): %v", n.dir, err)
	}
	r.dialFn = w.dialer(n.idx)
	r.quorumWait = time.Duration(w.opt.QuorumWait)
	n.r = r
	n.inc++
	n.free = false
	n.loopGate = newGate(w, "loop")
	n.fsmGate = newGate(w, "fsm")
	n.snapGate = newGate(w, "snap")
	n.snapAt, n.snapTask = "", nil
	n.drivers = map[uint64]*driver{}
	n.pending = map[*task]*simTask{}
	n.lis = newSimListener(n.addr)
	n.serveDone = make(chan struct{})
	n.serveErr = nil
	n.panicked = nil
	simRegister(n, r, r.fsm, r.storage, r.storage.termVal, r.storage.idVal, r.snaps)
	w.led.onStart(n)

	w.mu.Lock()
	n.up = true
	n.loopGate.running = true
	w.busy++
	w.mu.Unlock()
	done := n.serveDone
	lis := n.lis
	go func() {
		defer func() {
			if v := recover(); v != nil {
				n.panicked = v
				n.serveErr = fmt.Errorf("panic: %v", v)
			}
			w.mu.Lock()
			if n.loopGate.running {
				n.loopGate.running = false
				w.busy--
			}
			w.cond.Broadcast()
			w.mu.Unlock()
			close(done)
		}()
		n.serveErr = r.Serve(lis)
	}()
	// the FSM goroutine parks before its first receive
	if err := n.fsmGate.waitParked(); err != nil {
		return err
	}
	if r.snaps.index > 0 {
		// Serve blocks until the FSM goroutine has restored the snapshot
		n.fsmGate.release(true)
	}
	if err := w.waitQuiet(); err != nil {
		return err
	}
	select {
	case <-done:
		if n.inc > 1 {
			w.led.onStartFailed(n, fmt.Errorf("Serve returned at start: %v", n.serveErr))
			w.onServeExit(n)
			n.dead = true
			return nil
		}
		return fmt.Errorf("Serve returned at start: %v", n.serveErr)
	default:
	}
	return nil
}

// stop runs the real shutdown path with all hooks of the node passing through.
func (n *simNode) stop() error {
	w := n.w
	w.mu.Lock()
	n.free = true
	var rel []*gate
	for _, g := range []*gate{n.loopGate, n.fsmGate, n.snapGate} {
		if g.parked {
			rel = append(rel, g)
		}
	}
	w.mu.Unlock()
	r := n.r
	r.doClose(ErrServerClosed)
	for _, g := range rel {
		g.release(false)
	}
	ctx, cancel := context.WithTimeout(context.Background(), simWatchdog)
	defer cancel()
	err := r.Shutdown(ctx)
	if err != nil {
		return fmt.Errorf("Shutdown of node %d did not finish: %v", n.id, err)
	}
	<-n.serveDone
	w.mu.Lock()
	n.up = false
	for _, c := range w.conns {
		if c.cli == n.idx || c.srv == n.idx {
			c.closeLocked()
			if c.srv == n.idx {
				c.discSent = true
				c.c2s.Reset()
				c.held.Reset()
			}
		}
	}
	w.mu.Unlock()
	_ = n.lis.Close()
	err = w.waitQuiet()
	simUnregister(n)
	return err
}

// abandon releases the resources of a stopped incarnation.
func (n *simNode) abandon() {
	// exactly once per incarnation: a second munmap could hit an address range
	// that was recycled for another node's segment
	if n.abandonedInc == n.inc {
		return
	}
	n.abandonedInc = n.inc
	if n.r != nil && n.r.storage != nil && n.r.storage.log != nil {
		func() {
			defer func() { _ = recover() }()
			_ = n.r.storage.log.Close()
		}()
	}
}

func (w *world) close() {
	for _, n := range w.nodes {
		if n.up {
			_ = n.stop()
		}
		n.abandon()
	}
	w.mu.Lock()
	for _, c := range w.conns {
		c.closeLocked()
	}
	w.mu.Unlock()
	_ = w.waitQuiet()
	_ = os.RemoveAll(w.root)
}

// ---------------------------------------------------------------- stepping

// stepLoop releases the raft goroutine of n for exactly one iteration of its
// select loop.  feed (may be nil) makes exactly one input ready.
func (n *simNode) stepLoop(feed func() error) error {
	n.loopGate.release(true)
	if feed != nil {
		if err := feed(); err != nil {
			return err
		}
	}
	if err := n.w.waitQuiet(); err != nil {
		if rerr := n.w.rescueStuck(); rerr == nil {
			return n.afterStep()
		}
		return err
	}
	return n.afterStep()
}

// rescueStuck handles a step that did not return to a parked state because a
// panic is unwinding some node's Serve (assertion, runtime error re-panicked by
// recoverErr): Serve's deferred wg.Wait() waits for the gated FSM goroutine.
// All hooks of such a node are opened; if its Serve then returns with a panic
// the node is recorded as having terminated itself (oracle L-alive) and the
// world continues without it.
func (w *world) rescueStuck() error {
	rescued := false
	for _, n := range w.nodes {
		if !n.up {
			continue
		}
		w.mu.Lock()
		running := n.loopGate.running
		w.mu.Unlock()
		if !running {
			continue
		}
		// the raft goroutine neither parked nor finished
		w.mu.Lock()
		n.free = true
		var rel []*gate
		for _, g := range []*gate{n.fsmGate, n.snapGate} {
			if g.parked {
				rel = append(rel, g)
			}
		}
		w.mu.Unlock()
		for _, g := range rel {
			g.release(false)
		}
		t := time.NewTimer(2 * time.Second)
		select {
		case <-n.serveDone:
			t.Stop()
			w.mu.Lock()
			w.stuck = false
			w.mu.Unlock()
			w.onServeExit(n)
			n.abandon()
			rescued = true
		case <-t.C:
			return errSimStuck
		}
	}
	if !rescued {
		return errSimStuck
	}
	return w.waitQuiet()
}

// afterStep checks whether the node terminated by itself (removed from the
// cluster, storage/FSM error, panic recovered by stateLoop): the real exit
// path of Serve then runs with the node's hooks passing through.
func (n *simNode) afterStep() error {
	select {
	case <-n.serveDone:
		n.w.onServeExit(n)
		return nil
	default:
	}
	if n.up && n.r.isClosed() {
		return n.selfExit()
	}
	return nil
}

func (n *simNode) selfExit() error {
	w := n.w
	w.mu.Lock()
	n.free = true
	var rel []*gate
	for _, g := range []*gate{n.loopGate, n.fsmGate, n.snapGate} {
		if g.parked {
			rel = append(rel, g)
		}
	}
	w.mu.Unlock()
	for _, g := range rel {
		g.release(false)
	}
	t := time.NewTimer(simWatchdog)
	defer t.Stop()
	select {
	case <-n.serveDone:
	case <-t.C:
		return fmt.Errorf("node %d closed itself but Serve did not return: %w", n.id, errSimStuck)
	}
	w.onServeExit(n)
	n.abandon()
	return nil
}

// sendOrStuck sends on an unbuffered channel read by the raft loop.
func simSend(fn func(ch <-chan time.Time) bool) error {
	t := time.NewTimer(simWatchdog)
	defer t.Stop()
	if !fn(t.C) {
		return errSimStuck
	}
	return nil
}

// settle runs the deterministic internal follow-ups of a step: the
// candidate's own vote / collected vote results, a finished FSM restore,
// identity handshakes, finished helpers of replication drivers.
func (w *world) settle() error {
	eagerTried := map[*driver]bool{}
	for iter := 0; iter < 1000; iter++ {
		progress := false
		for _, n := range w.nodes {
			if !n.up || !n.loopGate.isParked() {
				continue
			}
			r := n.r
			if r.state == Candidate && r.cnd.respCh != nil && len(r.cnd.respCh) > 0 {
				if err := n.stepLoop(nil); err != nil {
					return err
				}
				progress = true
				continue
			}
			if len(r.fsmRestoredCh) > 0 {
				if err := n.stepLoop(nil); err != nil {
					return err
				}
				progress = true
				continue
			}
			if r.state == Leader && r.ldr.transfer.respCh != nil && len(r.ldr.transfer.respCh) > 0 {
				if err := n.stepLoop(nil); err != nil {
					return err
				}
				progress = true
				continue
			}
		}
		// identity handshakes are delivered at once
		for _, c := range w.liveConns() {
			w.mu.Lock()
			closed := c.closed
			w.mu.Unlock()
			if closed {
				continue
			}
			p := c.peekRequest()
			if p != nil && p.complete && p.typ == rpcIdentity {
				if err := w.deliver(c, false); err != nil {
					return err
				}
				progress = true
			}
		}
		for _, n := range w.nodes {
			if !n.up {
				continue
			}
			for _, id := range sortedDriverIDs(n.drivers) {
				d := n.drivers[id]
				var ok bool
				var err error
				d.guard("collect", func() { ok, err = d.collect() })
				if err != nil {
					return err
				} else if ok {
					progress = true
				}
				if w.opt.EagerConnect && !w.opt.NoRepl && !eagerTried[d] && d.canConnect() && w.reachable(n.idx, int(id-1)) {
					eagerTried[d] = true
					d.guard("connect", d.connect)
					if err := w.waitQuiet(); err != nil {
						return err
					}
					progress = true
				}
				if w.opt.EagerLU && n.up && len(d.updCh) > 0 && n.r.state == Leader && n.r.ldr.replUpdateCh != nil && (d.live() || n.r.ldr.startIndex == d.repl.ldrStartIndex) && n.loopGate.isParked() {
					for len(d.updCh) > 0 {
						n.r.ldr.replUpdateCh <- <-d.updCh
					}
					if err := n.stepLoop(nil); err != nil {
						return err
					}
					progress = true
				}
			}
			if w.opt.EagerFSM && n.up && len(n.r.fsm.ch) > 0 && n.fsmGate.isParked() {
				n.fsmGate.release(true)
				if err := w.waitQuiet(); err != nil {
					return err
				}
				progress = true
			}
		}
		if !progress {
			return nil
		}
	}
	return errors.New("sim: settle did not converge")
}

// onServeExit is called when a node's Serve returned without the explorer
// asking for it (ErrNodeRemoved, panic, storage error).
func (w *world) onServeExit(n *simNode) {
	if !n.up {
		return
	}
	w.mu.Lock()
	n.up = false
	n.free = true
	for _, c := range w.conns {
		if c.cli == n.idx || c.srv == n.idx {
			c.closeLocked()
			if c.srv == n.idx {
				c.discSent = true
				c.c2s.Reset()
				c.held.Reset()
			}
		}
	}
	w.mu.Unlock()
	_ = n.lis.Close()
	w.led.onServeExit(n)
	_ = w.waitQuiet()
	simUnregister(n)
}
