//go:build verif
// +build verif

package raft

// Events (transitions) of the E-SIM explorer: what is enabled in a world and
// how each event is executed on the real code.

import (
	"bufio"
	"bytes"
	"errors"
	"fmt"
	"io/ioutil"
	"net"
	"sort"
	"strings"
	"time"
)

// simEvent is one transition.  It is JSON-serialisable: a history is a list of
// events and is replayed on a fresh world.
type simEvent struct {
	K   string    `json:"k"`             // kind
	N   int       `json:"n,omitempty"`   // node index
	C   string    `json:"c,omitempty"`   // connection key
	F   uint64    `json:"f,omitempty"`   // follower id (driver events) / target id
	A   int       `json:"a,omitempty"`   // small integer argument
	S   string    `json:"s,omitempty"`   // string argument (operation name)
	Dev int       `json:"dev,omitempty"` // deviation cost of this event
	In  *simEvent `json:"in,omitempty"`  // KA: the event during which node N dies at its A-th storage point
}

func (e simEvent) String() string {
	s := e.K
	if e.K != "" {
		s += fmt.Sprintf("(n%d", e.N+1)
	}
	if e.C != "" {
		s += " " + e.C
	}
	if e.F != 0 {
		s += fmt.Sprintf(" f%d", e.F)
	}
	if e.A != 0 {
		s += fmt.Sprintf(" a%d", e.A)
	}
	if e.S != "" {
		s += " " + e.S
	}
	if e.In != nil {
		s += " during " + e.In.String()
	}
	return s + ")"
}

// scenario options that shape the enabled set
type simMenu struct {
	// OrderCost selects delay-bounded scheduling: the first enabled internal
	// event (canonical order: oldest message first, then replication steps) is
	// the default schedule and is free; taking any other internal event first
	// costs one deviation, like a fault.  Without it every interleaving of
	// internal events is explored and only faults/timeouts/client operations
	// cost deviations.
	OrderCost   bool
	Timeouts    bool     // election / quorum timeouts are enabled (each costs a deviation)
	TimeoutFree int      // number of timeouts that are free (scripted)
	Drops       bool     // message loss
	Dups        bool     // duplicate delivery
	Cuts        bool     // truncated append requests
	ConnFail    bool     // replication connection failures
	Crashes     bool     // crash + restart
	Partitions  bool     // link partitions
	Clients     []string // client operations available: update, read, barrier, dirty, batch2
	ClientNodes []int    // nodes clients talk to (nil: all up nodes)
	MaxUpdates  int
	MaxClient   int // max client ops of other kinds
	Admin       []string
	MaxAdmin    int
	Snapshots   bool // TakeSnapshot tasks
	MaxSnaps    int
	MaxTerm     uint64 // no election timeouts once a node's term reaches this
	CrashAt     bool
	Shutdowns   bool
}

type simCounters struct {
	Updates, Client, Admin, Snaps, Crashes int
}

func (w *world) connByKey(key string) *simConn {
	w.mu.Lock()
	defer w.mu.Unlock()
	for _, c := range w.conns {
		if c.key() == key {
			return c
		}
	}
	return nil
}

func (w *world) liveConns() []*simConn {
	w.mu.Lock()
	defer w.mu.Unlock()
	out := append([]*simConn(nil), w.conns...)
	// creation order is racy between goroutines dialling concurrently; the
	// (client, server, per-pair sequence) order is deterministic
	sort.Slice(out, func(i, j int) bool {
		a, b := out[i], out[j]
		if a.cli != b.cli {
			return a.cli < b.cli
		}
		if a.srv != b.srv {
			return a.srv < b.srv
		}
		return a.seq < b.seq
	})
	return out
}

// enabled lists the events enabled in the current (quiescent) world, in a
// canonical order.
func (w *world) enabled(m *simMenu, cnt simCounters) []simEvent {
	var ev []simEvent
	add := func(e simEvent) { ev = append(ev, e) }

	// network: requests in flight, held responses
	for _, c := range w.liveConns() {
		w.mu.Lock()
		closed := c.closed
		heldLen := c.held.Len()
		identNid, disc := c.identNid, c.discSent
		w.mu.Unlock()
		srv := w.nodes[c.srv]
		if !closed {
			if p := c.peekRequest(); p != nil && p.complete && srv.up {
				add(simEvent{K: "D", N: c.srv, C: c.key()})
				if m.Dups && p.typ != rpcIdentity {
					add(simEvent{K: "U", N: c.srv, C: c.key(), Dev: 1})
				}
				if m.Drops {
					add(simEvent{K: "X", N: c.srv, C: c.key(), Dev: 1})
				}
				if m.Cuts && p.typ == rpcAppendEntries && len(p.cuts) > 1 {
					for i := range p.cuts {
						add(simEvent{K: "C", N: c.srv, C: c.key(), A: i + 1, Dev: 1})
					}
				}
			}
			if heldLen > 0 {
				add(simEvent{K: "R", N: c.cli, C: c.key()})
				if m.Drops {
					add(simEvent{K: "X", N: c.cli, C: c.key(), A: 1, Dev: 1})
				}
			}
		} else {
			// data sent before the sender went away still arrives
			if p := c.peekRequest(); p != nil && p.complete && srv.up && p.typ != rpcIdentity {
				add(simEvent{K: "D", N: c.srv, C: c.key()})
			} else if w.opt.Disconnects && identNid != 0 && !disc && srv.up {
				add(simEvent{K: "DC", N: c.srv, C: c.key()})
			}
		}
	}

	for _, n := range w.nodes {
		if !n.up {
			if m.Crashes && n.r != nil && !n.dead {
				add(simEvent{K: "S", N: n.idx}) // restart
			}
			continue
		}
		r := n.r
		// timers
		if r.timer.active && m.Timeouts && (m.MaxTerm == 0 || r.term < m.MaxTerm || r.state == Leader) {
			add(simEvent{K: "T", N: n.idx, S: "main", Dev: 1})
		}
		if r.ldr != nil {
			// stateLoop selects on the transfer timers in every state (release stops them when leadership ends)
			if r.ldr.transfer.timer.active {
				add(simEvent{K: "T", N: n.idx, S: "transfer", Dev: 1})
			}
			if r.ldr.transfer.newTermTimer.active {
				add(simEvent{K: "T", N: n.idx, S: "newterm", Dev: 1})
			}
		}
		// fsm
		if len(r.fsm.ch) > 0 {
			add(simEvent{K: "F", N: n.idx})
		}
		// snapshot goroutine
		if n.snapGate.isParked() {
			switch n.snapAt {
			case "snap.start":
				add(simEvent{K: "SS", N: n.idx})
			case "snap.enqueued":
				if n.snapTask != nil && isClosed(n.snapTask.done) {
					add(simEvent{K: "SW", N: n.idx})
				}
			case "snap.finished":
				add(simEvent{K: "ST", N: n.idx})
			}
		}
		// replication drivers
		for _, id := range sortedDriverIDs(n.drivers) {
			if w.opt.NoRepl {
				break
			}
			d := n.drivers[id]
			// updates a stream handed over before it ended are still the leader's to consume
			if len(d.updCh) > 0 && r.state == Leader && r.ldr.replUpdateCh != nil && (d.live() || r.ldr.startIndex == d.repl.ldrStartIndex) {
				add(simEvent{K: "LU", N: n.idx, F: id})
			}
			if !d.live() {
				continue
			}
			if d.canConnect() && !(w.opt.EagerConnect && w.reachable(n.idx, int(id-1))) {
				add(simEvent{K: "RC", N: n.idx, F: id})
			}
			if ok, _ := d.canSend(); ok {
				add(simEvent{K: "RS", N: n.idx, F: id})
			}
			if d.canHeartbeat() {
				add(simEvent{K: "RH", N: n.idx, F: id})
			}
			if d.canRecv() {
				add(simEvent{K: "RR", N: n.idx, F: id})
			} else if d.connLost() {
				add(simEvent{K: "RF", N: n.idx, F: id})
			}
			if m.ConnFail && d.c != nil && d.helper == nil {
				add(simEvent{K: "RF", N: n.idx, F: id, A: 1, Dev: 1})
			}
		}
		// clients
		if clientNodeOK(m, n.idx) {
			for _, op := range m.Clients {
				switch op {
				case "update":
					if cnt.Updates < m.MaxUpdates {
						add(simEvent{K: "CL", N: n.idx, S: "update", Dev: 1})
					}
				case "batch2":
					if cnt.Updates+1 < m.MaxUpdates {
						add(simEvent{K: "CL", N: n.idx, S: "batch2", Dev: 1})
					}
				default:
					if cnt.Client < m.MaxClient {
						add(simEvent{K: "CL", N: n.idx, S: op, Dev: 1})
					}
				}
			}
			if cnt.Admin < m.MaxAdmin {
				for _, op := range m.Admin {
					if w.adminApplicable(n, op) {
						add(simEvent{K: "AD", N: n.idx, S: op, Dev: 1})
					}
				}
			}
			if m.Snapshots && cnt.Snaps < m.MaxSnaps && r.snapTakenCh == nil {
				add(simEvent{K: "SN", N: n.idx, Dev: 1})
			}
		}
		if m.Crashes && cnt.Crashes > 0 {
			add(simEvent{K: "K", N: n.idx, Dev: 1})
			if m.Shutdowns {
				add(simEvent{K: "SD", N: n.idx, Dev: 1})
			}
		}
	}
	if m.Partitions {
		for a := 0; a < len(w.nodes); a++ {
			for b := a + 1; b < len(w.nodes); b++ {
				if w.blocked[[2]int{a, b}] {
					add(simEvent{K: "PH", N: a, A: b})
				} else {
					add(simEvent{K: "PB", N: a, A: b, Dev: 1})
				}
			}
		}
	}
	return ev
}

func clientNodeOK(m *simMenu, idx int) bool {
	if m.ClientNodes == nil {
		return true
	}
	for _, i := range m.ClientNodes {
		if i == idx {
			return true
		}
	}
	return false
}

var errSimHarness = errors.New("sim: harness error")

// apply executes one event and brings the world back to quiescence.
func (w *world) apply(e simEvent) (err error) {
	w.clock++
	w.logf("%d: %v", w.clock, e)
	for _, n := range w.nodes {
		n.points = n.points[:0]
	}
	w.led.beforeEvent(e)
	if e.K == "KA" {
		err = w.crashAt(e)
	} else {
		err = w.applyInner(e)
	}
	if err == nil {
		err = w.settle()
	}
	if err != nil {
		return err
	}
	w.pollTasks()
	w.led.afterEvent(e)
	return nil
}

func (w *world) applyInner(e simEvent) error {
	var n *simNode
	if e.N >= 0 && e.N < len(w.nodes) {
		n = w.nodes[e.N]
	}
	switch e.K {
	case "T", "F", "SS", "SW", "ST", "LU", "CL", "AD", "SN", "K", "SD":
		if n == nil || !n.up {
			return fmt.Errorf("%w: %v on a node that is not running", errSimHarness, e)
		}
	case "S":
		if n == nil || n.up {
			return fmt.Errorf("%w: %v on a running node", errSimHarness, e)
		}
	}
	switch e.K {
	case "D":
		c := w.connByKey(e.C)
		if c == nil {
			return fmt.Errorf("%w: no conn %s", errSimHarness, e.C)
		}
		return w.deliver(c, false)
	case "U":
		c := w.connByKey(e.C)
		if c == nil {
			return fmt.Errorf("%w: no conn %s", errSimHarness, e.C)
		}
		return w.deliver(c, true)
	case "C":
		c := w.connByKey(e.C)
		if c == nil {
			return fmt.Errorf("%w: no conn %s", errSimHarness, e.C)
		}
		if err := w.cut(c, e.A-1); err != nil {
			return err
		}
		return w.deliver(c, false)
	case "X":
		c := w.connByKey(e.C)
		if c == nil {
			return fmt.Errorf("%w: no conn %s", errSimHarness, e.C)
		}
		w.mu.Lock()
		c.held.Reset()
		c.closeLocked()
		w.mu.Unlock()
		return w.waitQuiet()
	case "R":
		c := w.connByKey(e.C)
		if c == nil {
			return fmt.Errorf("%w: no conn %s", errSimHarness, e.C)
		}
		w.mu.Lock()
		c.s2c.Write(c.held.Bytes())
		c.held.Reset()
		c.wakeLocked()
		w.mu.Unlock()
		return w.waitQuiet()
	case "DC":
		c := w.connByKey(e.C)
		if c == nil {
			return fmt.Errorf("%w: no conn %s", errSimHarness, e.C)
		}
		c.discSent = true
		srv := w.nodes[c.srv]
		srv.r.disconnected <- c.identNid
		return srv.stepLoop(nil)
	case "T":
		var t *safeTimer
		switch e.S {
		case "main":
			t = n.r.timer
		case "transfer":
			t = n.r.ldr.transfer.timer
		case "newterm":
			t = n.r.ldr.transfer.newTermTimer
		case "snap":
			t = n.r.snapTimer
		}
		if t == nil || !t.active {
			return fmt.Errorf("%w: timer %s of n%d not active", errSimHarness, e.S, n.id)
		}
		chv, ok := simTimer.Load(t)
		if !ok {
			return fmt.Errorf("%w: timer %s of n%d has no virtual channel", errSimHarness, e.S, n.id)
		}
		// make the underlying timer really expire (its own channel is never read: the
		// select reads the substituted channel), so that timer.Stop() reports "already
		// fired" afterwards exactly as in production
		t.timer.Reset(0)
		for i := 0; len(t.timer.C) == 0 && i < 2000; i++ {
			time.Sleep(50 * time.Microsecond)
		}
		chv.(chan time.Time) <- time.Now()
		return n.stepLoop(nil)
	case "F":
		if !(n.fsmGate.isParked() && len(n.r.fsm.ch) > 0) {
			return fmt.Errorf("%w: %v: the FSM goroutine of n%d has nothing queued", errSimHarness, e, n.id)
		}
		n.fsmGate.release(true)
		return w.waitQuiet()
	case "SS", "SW":
		if !n.snapGate.isParked() || (e.K == "SS" && n.snapAt != "snap.start") || (e.K == "SW" && !(n.snapAt == "snap.enqueued" && n.snapTask != nil && isClosed(n.snapTask.done))) {
			return fmt.Errorf("%w: %v: the snapshot goroutine of n%d is not at that point (%q)", errSimHarness, e, n.id, n.snapAt)
		}
		n.snapGate.release(true)
		return w.waitQuiet()
	case "ST":
		if !n.snapGate.isParked() || n.snapAt != "snap.finished" {
			return fmt.Errorf("%w: %v: the snapshot goroutine of n%d is not at that point (%q)", errSimHarness, e, n.id, n.snapAt)
		}
		n.snapAt = ""
		n.snapGate.release(false)
		return n.stepLoop(nil)
	case "LU":
		d := n.drivers[e.F]
		if d == nil || n.r.state != Leader || n.r.ldr.replUpdateCh == nil {
			return fmt.Errorf("%w: LU without leader/driver", errSimHarness)
		}
		// hand the pending updates of this stream to the leader; checkReplUpdates
		// also drains whatever else is waiting in its channel
		for len(d.updCh) > 0 {
			n.r.ldr.replUpdateCh <- <-d.updCh
		}
		return n.stepLoop(nil)
	case "RC", "RS", "RH", "RR", "RF":
		if n == nil || !n.up || n.drivers[e.F] == nil {
			return fmt.Errorf("%w: no replication stream n%d->f%d", errSimHarness, e.N+1, e.F)
		}
		// a recorded history may meet the other outcome of a map-order dependent step, in which this stream is
		// stopped or in another phase: the event does not exist there (executing it anyway would call the real
		// methods with a connection the real control flow never passes them)
		d := n.drivers[e.F]
		ok := false
		switch e.K {
		case "RC":
			ok = d.canConnect()
		case "RS":
			ok, _ = d.canSend()
		case "RH":
			ok = d.canHeartbeat()
		case "RR":
			ok = d.canRecv()
		case "RF":
			ok = d.live() && d.c != nil && d.helper == nil
		}
		if !ok {
			return fmt.Errorf("%w: %v is not enabled in this state (stream n%d->f%d)", errSimHarness, e, e.N+1, e.F)
		}
		return w.applyDriver(n, e)
	default:
		return w.applyDriver(n, e)
	}
	return fmt.Errorf("%w: unknown event %v", errSimHarness, e) // unreachable
}

func (w *world) applyDriver(n *simNode, e simEvent) error {
	switch e.K {
	case "RC":
		d := n.drivers[e.F]
		d.guard("connect", d.connect)
		return w.waitQuiet()
	case "RS":
		d := n.drivers[e.F]
		d.guard("send", func() { d.send(false) })
		return w.waitQuiet()
	case "RH":
		d := n.drivers[e.F]
		d.guard("heartbeat", func() { d.send(true) })
		return w.waitQuiet()
	case "RR":
		d := n.drivers[e.F]
		d.guard("receive", d.recv)
		return w.waitQuiet()
	case "RF":
		d := n.drivers[e.F]
		d.guard("connfail", func() { d.connFail(errSimClosed) })
		return w.waitQuiet()
	case "CL":
		return w.clientOp(n, e.S)
	case "AD":
		return w.adminOp(n, e.S)
	case "SN":
		t := TakeSnapshot(0)
		w.track("snapshot", n, "", t, innerTask(t))
		if n.r.snapTakenCh == nil {
			// arguments the snapshot goroutine is started with (hidden state, part of the canonical form)
			n.snapArgs = fmt.Sprintf("cfg%d/idx%d", n.r.configs.Committed.Index, n.r.snaps.index)
		}
		return n.stepLoop(func() error { return simSendTask(n.r, t) })
	case "K":
		return w.crash(n, "")
	case "S":
		return n.start()
	case "SD":
		err := n.stop()
		n.abandon()
		return err
	case "PB":
		w.partition(e.N, e.A, true)
		return w.waitQuiet()
	case "PH":
		w.partition(e.N, e.A, false)
		return nil
	}
	return fmt.Errorf("%w: unknown event %v", errSimHarness, e)
}

// crashAt executes e.In while node e.N is a "ghost": a copy of its directory
// is taken at its e.A-th storage point; everything the node sends or answers
// during the transition is discarded (the process died at that point, so none
// of it left the machine), the node then stops and its directory is replaced
// by the copy.
func (w *world) crashAt(e simEvent) error {
	n := w.nodes[e.N]
	if e.In == nil || !n.up {
		return fmt.Errorf("%w: bad KA event", errSimHarness)
	}
	type lens struct{ c2s, s2c, held int }
	pre := map[*simConn]lens{}
	w.mu.Lock()
	for _, c := range w.conns {
		pre[c] = lens{c.c2s.Len() + c.srvConn.bufr.Buffered(), c.s2c.Len(), c.held.Len()}
	}
	w.ghost = n.idx
	w.mu.Unlock()
	w.led.ghost = n.idx
	ntasks := len(w.tasks)
	pendingBefore := map[*simTask]bool{}
	for _, st := range w.tasks {
		if st.ret < 0 {
			pendingBefore[st] = true
		}
	}
	n.imageAt, n.image = e.A, ""
	err := w.applyInner(*e.In)
	if err == nil {
		err = w.settle()
	}
	n.imageAt = -1
	w.led.ghost = -1
	w.mu.Lock()
	w.ghost = -1
	// discard the node's network output of this transition
	for _, c := range w.conns {
		l, existed := pre[c]
		if c.cli == n.idx {
			if !existed {
				c.c2s.Reset()
				c.closeLocked()
				c.discSent = true
			} else if cur := c.c2s.Len() + c.srvConn.bufr.Buffered(); cur > l.c2s && c.srvConn.bufr.Buffered() <= l.c2s {
				c.c2s.Truncate(l.c2s - c.srvConn.bufr.Buffered())
			}
		}
		if c.srv == n.idx {
			if !existed {
				l = lens{}
			}
			if c.s2c.Len() > l.s2c {
				c.s2c.Truncate(l.s2c)
			}
			if c.held.Len() > l.held {
				c.held.Truncate(l.held)
			}
		}
	}
	w.mu.Unlock()
	if err != nil {
		return err
	}
	// task replies produced by the dying node never reached the client
	simTaskMu.Lock()
	for i, st := range w.tasks {
		if st.node == n.idx && (i >= ntasks || pendingBefore[st]) {
			st.ghost = true
		}
	}
	simTaskMu.Unlock()
	img := n.image
	n.image = ""
	if img == "" {
		return fmt.Errorf("%w: node %d passed only %d storage points in %v", errSimHarness, n.id, len(n.points), *e.In)
	}
	if !n.up {
		n.dir = img
		w.led.onCrash(n)
		return nil
	}
	return w.crash(n, img)
}

func simSendTask(r *Raft, t Task) error {
	tm := time.NewTimer(simWatchdog)
	defer tm.Stop()
	select {
	case r.taskCh <- t:
		return nil
	case <-tm.C:
		return errSimStuck
	}
}

func (w *world) partition(a, b int, block bool) {
	if a > b {
		a, b = b, a
	}
	w.mu.Lock()
	defer w.mu.Unlock()
	if block {
		w.blocked[[2]int{a, b}] = true
		for _, c := range w.conns {
			if (c.cli == a && c.srv == b) || (c.cli == b && c.srv == a) {
				c.held.Reset()
				c.closeLocked()
			}
		}
	} else {
		delete(w.blocked, [2]int{a, b})
	}
}

// crash replaces the node's directory by a copy taken now (or by a prepared
// image), runs the shutdown path on the old directory and leaves the node down.
func (w *world) crash(n *simNode, image string) error {
	if image == "" {
		image = w.copyDir(n.dir)
	}
	old := n.dir
	err := n.stop()
	n.abandon()
	n.dir = image
	_ = old
	w.led.onCrash(n)
	return err
}

// cut truncates the first pending request of c after its k-th cut point and
// closes the connection behind it.
func (w *world) cut(c *simConn, k int) error {
	p := c.peekRequest()
	if p == nil || k < 0 || k >= len(p.cuts) {
		return fmt.Errorf("%w: bad cut", errSimHarness)
	}
	w.mu.Lock()
	defer w.mu.Unlock()
	buffered := c.srvConn.bufr.Buffered()
	keep := p.cuts[k] - buffered
	if keep < 0 {
		return fmt.Errorf("%w: cut inside buffered bytes", errSimHarness)
	}
	c.c2s.Truncate(keep)
	return nil
}

// deliver hands the first pending request of c to the destination's raft loop
// through the same steps as server.handleConn.
func (w *world) deliver(c *simConn, dup bool) error {
	dst := w.nodes[c.srv]
	if !dst.up {
		return fmt.Errorf("%w: deliver to down node", errSimHarness)
	}
	sc := c.srvConn
	pend := c.peekRequest()
	if dup {
		w.mu.Lock()
		b := append([]byte(nil), c.pendingBytesLocked()...)
		w.mu.Unlock()
		rw := &simNopRWC{Reader: bytes.NewReader(b)}
		sc = &conn{rwc: rw, bufr: bufio.NewReader(rw), bufw: bufio.NewWriter(ioutil.Discard)}
	}
	b, err := sc.bufr.ReadByte()
	if err != nil {
		return fmt.Errorf("%w: deliver without bytes: %v", errSimHarness, err)
	}
	rtype := rpcType(b)
	if !rtype.isValid() {
		return fmt.Errorf("%w: invalid rpc type %d", errSimHarness, b)
	}
	rp := &rpc{req: rtype.createReq(), conn: sc, done: make(chan struct{})}
	if !rtype.fromLeader() {
		if err := rp.req.decode(sc.bufr); err != nil {
			// handleConn returns: connection closed
			if !dup {
				w.mu.Lock()
				c.closeLocked()
				w.mu.Unlock()
			}
			return w.waitQuiet()
		}
	}
	if !dup {
		c.delivered++
	}
	w.led.beforeDeliver(dst, c, rp.req, dup)
	simDeliverCtx.pending = pend
	err = dst.stepLoop(func() error {
		tm := time.NewTimer(simWatchdog)
		defer tm.Stop()
		select {
		case dst.r.rpcCh <- rp:
			return nil
		case <-tm.C:
			return errSimStuck
		}
	})
	if err != nil {
		return err
	}
	if !isClosed(rp.done) {
		if !dst.up {
			return nil // node terminated inside the step
		}
		return fmt.Errorf("%w: rpc not done after step", errSimHarness)
	}
	w.led.afterDeliver(dst, c, rp, dup)
	if dup {
		return nil
	}
	if rp.readErr != nil {
		w.mu.Lock()
		c.closeLocked()
		w.mu.Unlock()
		return w.waitQuiet()
	}
	w.mu.Lock()
	closed := c.closed
	w.mu.Unlock()
	if closed || !dst.up {
		return w.waitQuiet()
	}
	// vote / timeoutNow replies are held until the explorer releases them
	c.holdResp(rtype == rpcVote || rtype == rpcTimeoutNow)
	if err := rp.resp.encode(sc.bufw); err == nil {
		_ = sc.bufw.Flush()
	}
	c.holdResp(false)
	if rtype == rpcIdentity {
		if rp.resp.getResult() == success {
			c.identNid = rp.req.from()
		} else {
			w.mu.Lock()
			c.closeLocked()
			c.discSent = true
			w.mu.Unlock()
		}
	}
	return w.waitQuiet()
}

type simNopRWC struct {
	*bytes.Reader
}

func (s *simNopRWC) Write(p []byte) (int, error)        { return len(p), nil }
func (s *simNopRWC) Close() error                       { return nil }
func (s *simNopRWC) LocalAddr() net.Addr                { return simAddr("dup") }
func (s *simNopRWC) RemoteAddr() net.Addr               { return simAddr("dup") }
func (s *simNopRWC) SetDeadline(t time.Time) error      { return nil }
func (s *simNopRWC) SetReadDeadline(t time.Time) error  { return nil }
func (s *simNopRWC) SetWriteDeadline(t time.Time) error { return nil }

// ---------------------------------------------------------------- clients

func (w *world) nextPayload() []byte {
	w.nextUpd++
	id := fmt.Sprintf("u%d", w.nextUpd)
	if w.opt.Pad > 0 {
		return []byte(id + "|" + strings.Repeat("x", w.opt.Pad))
	}
	return []byte(id)
}

// infoOp submits a real GetInfo task (the raft goroutine waits for the FSM
// goroutine inside it, see the fsm.wait hook) and checks the report.
func (w *world) infoOp(n *simNode) error {
	t := GetInfo()
	st := w.track("info", n, "", t, innerTask(t))
	if err := n.stepLoop(func() error { return simSendTask(n.r, t) }); err != nil {
		return err
	}
	select {
	case <-t.Done():
		if info, ok := t.Result().(Info); ok {
			w.led.onInfoReport(n, info)
		}
	default:
		_ = st
	}
	return nil
}

func (w *world) clientOp(n *simNode, op string) error {
	if op == "info" {
		return w.infoOp(n)
	}
	var tasks []FSMTask
	mk := func(kind string) {
		var t FSMTask
		payload := ""
		switch kind {
		case "update":
			p := w.nextPayload()
			payload = simPayloadID(p)
			t = UpdateFSM(p)
		case "read":
			t = ReadFSM("r")
		case "barrier":
			t = BarrierFSM()
		case "dirty":
			t = DirtyReadFSM("d")
		}
		w.track(kind, n, payload, t, t.(*newEntry).task)
		tasks = append(tasks, t)
	}
	switch op {
	case "batch2":
		mk("update")
		mk("update")
	case "update+read":
		mk("update")
		mk("read")
	case "read+update":
		mk("read")
		mk("update")
	default:
		mk(op)
	}
	for _, t := range tasks {
		tm := time.NewTimer(simWatchdog)
		select {
		case n.r.fsmTaskCh <- t:
			tm.Stop()
		case <-tm.C:
			return errSimStuck
		}
	}
	return n.stepLoop(nil)
}

// adminApplicable filters admin operations that make sense in the current
// state (keeps the branching factor down; an inapplicable operation is
// answered by validation code that the "invalid" operations cover).
func (w *world) adminApplicable(n *simNode, op string) bool {
	_, ok := w.buildAdmin(n, op)
	return ok
}

// buildAdmin builds the admin task for op against node n's current view of
// the configuration, as a client would after GetInfo.
func (w *world) buildAdmin(n *simNode, op string) (Task, bool) {
	r := n.r
	cfg := r.configs.Latest.clone()
	parts := strings.Split(op, ":")
	arg := func(i int) uint64 {
		if i < len(parts) {
			var v uint64
			fmt.Sscanf(parts[i], "%d", &v)
			return v
		}
		return 0
	}
	switch parts[0] {
	case "bootstrap": // bootstrap the cluster from a node that has only its identity
		if r.configs.IsBootstrapped() {
			return nil, false
		}
		c := Config{Nodes: map[uint64]Node{}}
		for _, nd := range w.nodes {
			if err := c.AddVoter(nd.id, nd.addr); err != nil {
				return nil, false
			}
		}
		return ChangeConfig(c), true
	case "add": // add:<id>[:promote]
		id := arg(1)
		if _, ok := cfg.Nodes[id]; ok || id == 0 || int(id) > len(w.nodes) {
			return nil, false
		}
		if err := cfg.AddNonvoter(id, w.nodes[id-1].addr, len(parts) > 2 && parts[2] == "promote"); err != nil {
			return nil, false
		}
		return ChangeConfig(cfg), true
	case "promote", "demote", "remove", "forceremove":
		id := arg(1)
		nd, ok := cfg.Nodes[id]
		if !ok {
			return nil, false
		}
		act := map[string]Action{"promote": Promote, "demote": Demote, "remove": Remove, "forceremove": ForceRemove}[parts[0]]
		if nd.Action == act {
			return nil, false
		}
		if err := cfg.SetAction(id, act); err != nil {
			return nil, false
		}
		return ChangeConfig(cfg), true
	case "handover": // handover:<promote id>: every voter gets Demote, one non-voter gets Promote, in one request
		id := arg(1)
		nd, ok := cfg.Nodes[id]
		if !ok || nd.Voter {
			return nil, false
		}
		for vid, v := range cfg.Nodes {
			if v.Voter {
				if cfg.SetAction(vid, Demote) != nil {
					return nil, false
				}
			}
		}
		if cfg.SetAction(id, Promote) != nil {
			return nil, false
		}
		return ChangeConfig(cfg), true
	case "demote2": // two actions in one request
		a, b := arg(1), arg(2)
		if _, ok := cfg.Nodes[a]; !ok {
			return nil, false
		}
		if _, ok := cfg.Nodes[b]; !ok {
			return nil, false
		}
		if cfg.SetAction(a, Demote) != nil || cfg.SetAction(b, Demote) != nil {
			return nil, false
		}
		return ChangeConfig(cfg), true
	case "flipvoter": // invalid: direct voter flip
		id := arg(1)
		nd, ok := cfg.Nodes[id]
		if !ok {
			return nil, false
		}
		nd.Voter = !nd.Voter
		cfg.Nodes[id] = nd
		return ChangeConfig(cfg), true
	case "flip2": // invalid: direct voter flip of two nodes in one request
		for _, id := range []uint64{arg(1), arg(2)} {
			nd, ok := cfg.Nodes[id]
			if !ok {
				return nil, false
			}
			nd.Voter = !nd.Voter
			cfg.Nodes[id] = nd
		}
		return ChangeConfig(cfg), true
	case "stale": // stale index
		cfg.Index--
		return ChangeConfig(cfg), true
	case "transfer": // transfer:<target>
		return TransferLeadership(arg(1), time.Hour), true
	case "waitstable":
		return WaitForStableConfig(), true
	}
	return nil, false
}

func (w *world) adminOp(n *simNode, op string) error {
	t, ok := w.buildAdmin(n, op)
	if !ok {
		return fmt.Errorf("%w: admin op %s not applicable", errSimHarness, op)
	}
	kind := "config"
	if strings.HasPrefix(op, "transfer") {
		kind = "transfer"
	} else if op == "waitstable" {
		kind = "waitstable"
	}
	w.track(kind, n, op, t, innerTask(t))
	return n.stepLoop(func() error { return simSendTask(n.r, t) })
}

func sortEvents(ev []simEvent) {
	sort.SliceStable(ev, func(i, j int) bool { return ev[i].Dev < ev[j].Dev })
}
