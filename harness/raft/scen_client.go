//go:build verif
// +build verif

package raft

// Scenario family "client" (C07): client-visible semantics of UpdateFSM /
// ReadFSM / BarrierFSM / DirtyReadFSM tasks submitted to any node, batched
// arbitrarily, under leader changes, transfer, self-demotion, crashes.

import (
	"fmt"
	"sort"
	"strings"
	"time"

	"github.com/anishathalye/porcupine"
)

// committedUpdates returns the payloads of the committed update entries in
// index order: the one sequential log all client outcomes must agree with.
func (l *ledger) committedUpdates() []string {
	idxs := make([]uint64, 0, len(l.committed))
	for i := range l.committed {
		idxs = append(idxs, i)
	}
	sort.Slice(idxs, func(a, b int) bool { return idxs[a] < idxs[b] })
	var out []string
	for _, i := range idxs {
		if c := l.committed[i]; c.Typ == entryUpdate {
			out = append(out, c.Hash)
		}
	}
	return out
}

func isDefinitiveRejection(v interface{}) bool {
	switch e := v.(type) {
	case NotLeaderError:
		return !e.Lost
	case InProgressError:
		return true
	}
	return false
}

func isAmbiguous(v interface{}) bool {
	switch e := v.(type) {
	case NotLeaderError:
		return e.Lost
	case error:
		return e == ErrServerClosed
	}
	return false
}

func isPrefix(a, b []string) bool {
	if len(a) > len(b) {
		return false
	}
	for i := range a {
		if a[i] != b[i] {
			return false
		}
	}
	return true
}

// checkClient evaluates the client-semantics clauses of C07 on the tasks
// submitted so far.
func (l *ledger) checkClient() {
	w := l.w
	seq := l.committedUpdates()
	pos := map[string][]int{}
	for i, p := range seq {
		pos[p] = append(pos[p], i+1)
	}
	for p, ps := range pos {
		if len(ps) > 1 {
			l.violate("client", "update-committed-twice", fmt.Sprintf("update %s is committed %d times (positions %v)", p, len(ps), ps))
		}
	}
	for _, st := range w.tasks {
		if st.kind != "update" && st.kind != "read" && st.kind != "barrier" && st.kind != "dirty" {
			continue
		}
		done := st.ret >= 0
		var res interface{}
		if done {
			res = st.inner.result
		}
		switch st.kind {
		case "update":
			if !done {
				continue
			}
			if p, ok := res.(int); ok {
				// success: took effect exactly once, at the position reported
				ps := pos[st.payload]
				if len(ps) == 0 {
					l.violate("client", "successful-update-not-committed", fmt.Sprintf("update %s on node %d completed successfully (result %d) but is not among the committed updates %v", st.payload, st.node+1, p, seq))
				} else if ps[0] != p {
					l.violate("client", "update-result-position-wrong", fmt.Sprintf("update %s reported position %d but is committed at position %d", st.payload, p, ps[0]))
				}
			} else if isDefinitiveRejection(res) {
				if len(pos[st.payload]) > 0 {
					l.violate("client", "rejected-update-took-effect:"+resultClass(res), fmt.Sprintf("update %s on node %d was rejected with %v but is committed at position %v", st.payload, st.node+1, res, pos[st.payload]))
				}
				for _, n := range w.nodes {
					if n.fsm == nil {
						continue
					}
					for _, p := range n.fsm.snapshotState() {
						if p == st.payload {
							l.violate("client", "rejected-update-applied:"+resultClass(res), fmt.Sprintf("update %s was rejected with %v but node %d applied it", st.payload, res, n.id))
						}
					}
				}
			} else if !isAmbiguous(res) {
				l.violate("client", "update-unexpected-result:"+resultClass(res), fmt.Sprintf("update %s on node %d completed with %v", st.payload, st.node+1, res))
			}
		case "read", "dirty":
			if !done {
				continue
			}
			s, ok := res.([]string)
			if !ok {
				if st.kind == "read" && !isDefinitiveRejection(res) && !isAmbiguous(res) {
					l.violate("client", "read-unexpected-result:"+resultClass(res), fmt.Sprintf("read on node %d completed with %v", st.node+1, res))
				}
				continue
			}
			// no read ever exposes an update that is not committed
			if !isPrefix(s, seq) {
				l.violate("client", st.kind+"-exposes-uncommitted", fmt.Sprintf("%s read on node %d returned %v which is not a prefix of the committed updates %v", st.kind, st.node+1, s, seq))
			}
			if st.kind == "read" {
				l.checkReflects(st, s)
			}
		case "barrier":
			if !done {
				continue
			}
			if res != nil {
				if !isDefinitiveRejection(res) && !isAmbiguous(res) {
					l.violate("client", "barrier-unexpected-result:"+resultClass(res), fmt.Sprintf("barrier on node %d completed with %v", st.node+1, res))
				}
				continue
			}
			l.checkReflects(st, nil)
		}
	}
	// real-time order of successful updates
	for _, a := range w.tasks {
		pa, oka := a.inner.result.(int)
		if a.kind != "update" || a.ret < 0 || !oka {
			continue
		}
		for _, b := range w.tasks {
			pb, okb := b.inner.result.(int)
			if b.kind != "update" || b.ret < 0 || !okb || a == b {
				continue
			}
			if a.ret < b.invoke && pa >= pb {
				l.violate("client", "real-time-order-violated", fmt.Sprintf("update %s completed (position %d) before %s was submitted, which got position %d", a.payload, pa, b.payload, pb))
			}
		}
	}
}

func resultClass(v interface{}) string {
	switch e := v.(type) {
	case NotLeaderError:
		return fmt.Sprintf("NotLeader(lost=%v)", e.Lost)
	case InProgressError:
		return "InProgress(" + string(e) + ")"
	case error:
		return simErrClass(e)
	case nil:
		return "nil"
	}
	return fmt.Sprintf("%T", v)
}

// checkReflects: a read/barrier answered successfully by a leader reflects
// every update that leader accepted before it.  "Accepted before" = submitted
// to the same node incarnation in the same term, earlier (or earlier in the
// same batch), and not rejected.
func (l *ledger) checkReflects(rd *simTask, state []string) {
	in := map[string]bool{}
	for _, p := range state {
		in[p] = true
	}
	for _, u := range l.w.tasks {
		if u.kind != "update" || u.node != rd.node || u.inc != rd.inc || u.termAtInvoke != rd.termAtInvoke {
			continue
		}
		if u.invoke > rd.invoke || (u.invoke == rd.invoke && u.id > rd.id) {
			continue
		}
		if u.ret >= 0 {
			if _, ok := u.inner.result.(int); !ok {
				continue // rejected or lost: not (or not known to be) accepted
			}
		} else if u.stateAtInvoke != Leader {
			continue
		}
		if rd.kind == "read" {
			if !in[u.payload] {
				l.violate("client", "read-misses-accepted-update", fmt.Sprintf("read on leader %d returned %v although update %s was accepted by that leader before it", rd.node+1, state, u.payload))
			}
		} else if u.ret < 0 || u.ret > rd.ret {
			l.violate("client", "barrier-before-accepted-update", fmt.Sprintf("barrier on leader %d completed before update %s that the leader accepted before it", rd.node+1, u.payload))
		}
	}
}

// ---------------------------------------------------------------- porcupine

type pcIn struct {
	payload string
}
type pcOut struct {
	pos     int  // reported position (success)
	unknown bool // ambiguous failure: may have taken effect
}

var pcModel = porcupine.Model{
	Init: func() interface{} { return "" },
	Step: func(state, input, output interface{}) (bool, interface{}) {
		s := state.(string)
		in := input.(pcIn)
		out := output.(pcOut)
		n := 0
		if s != "" {
			n = strings.Count(s, ",") + 1
		}
		ns := in.payload
		if s != "" {
			ns = s + "," + in.payload
		}
		if out.unknown {
			return true, ns
		}
		return out.pos == n+1, ns
	},
	Equal: func(a, b interface{}) bool { return a.(string) == b.(string) },
}

// checkLinearizable runs porcupine over the update history: successful
// updates with their reported positions, ambiguous ones (only if they did
// take effect) with an open-ended return.
func (l *ledger) checkLinearizable() {
	seq := l.committedUpdates()
	committed := map[string]bool{}
	for _, p := range seq {
		committed[p] = true
	}
	var ops []porcupine.Operation
	const inf = int64(1) << 40
	for _, st := range l.w.tasks {
		if st.kind != "update" {
			continue
		}
		// call time 2*invoke+order-within-batch keeps batch order; return 2*ret+1
		call := int64(st.invoke)*1000 + int64(st.id)
		if st.ret >= 0 {
			if p, ok := st.inner.result.(int); ok {
				ops = append(ops, porcupine.Operation{ClientId: st.id, Input: pcIn{st.payload}, Output: pcOut{pos: p}, Call: call, Return: int64(st.ret)*1000 + 999})
				continue
			}
			if isDefinitiveRejection(st.inner.result) {
				continue
			}
		}
		if committed[st.payload] {
			ops = append(ops, porcupine.Operation{ClientId: st.id, Input: pcIn{st.payload}, Output: pcOut{unknown: true}, Call: call, Return: inf + int64(st.id)})
		}
	}
	if len(ops) == 0 {
		return
	}
	l.stats.linChecks++
	if !porcupine.CheckOperations(pcModel, ops) {
		var d []string
		for _, o := range ops {
			d = append(d, fmt.Sprintf("%v->%v@[%d,%d]", o.Input, o.Output, o.Call, o.Return))
		}
		l.violate("client", "update-history-not-linearizable", fmt.Sprintf("porcupine: the history of updates %v is not linearizable as an append-only list; committed sequence %v", d, seq))
	}
}

// ---------------------------------------------------------------- scenarios

func scenClient(name string, script []string, clients []string, admin []string, dev int, eagerFSM, orderCost bool, maxUpd, maxCl int) *simScenario {
	n := "client-" + name
	if !eagerFSM {
		n += "-fsmlag"
	}
	if orderCost {
		n += "-delaybounded"
	}
	return &simScenario{
		Name:   n,
		Opt:    worldOpt{Nodes: 3, Voters: []uint64{1, 2, 3}, EagerFSM: eagerFSM, EagerLU: true, EagerConnect: true},
		Script: script,
		Menu: simMenu{OrderCost: orderCost, Timeouts: true, MaxTerm: 3, Drops: true, Crashes: true, Shutdowns: true,
			Clients: clients, MaxUpdates: maxUpd, MaxClient: maxCl, Admin: admin, MaxAdmin: 1},
		MaxDev:  dev,
		Crashes: 1,
		Oracles: []string{"client"},
	}
}

// clientFigure8: a successfully completed update must stay in the one sequential log when leaders change in the
// Figure-8 pattern (the adversarial final check submits a further update to the next leader)
func clientFigure8(tier string) *simScenario {
	sc := scenFigure8Net(tier)
	sc.Name = "client-figure8-net"
	sc.Oracles = []string{"client"}
	return sc
}

// clientPendingDeposed: leader n1 holds a client update that reached n2 but is not committed; n2 has just won the
// next term and is about to depose n1 with its first append: the fate of the pending update (ambiguous loss, then
// committed by n2) must be reported as such
func clientPendingDeposed() *simScenario {
	sc := scenClient("pending-deposed", []string{"T:1", "run", "update:1", `ev:{"k":"RS","n":0,"f":2}`, "deliver:2", "block:1:3", "disc", "elect:2", "heal:1:3"},
		[]string{"read"}, nil, 1, true, false, 0, 1)
	sc.Menu = simMenu{OrderCost: true, Drops: true, Clients: []string{"read"}, MaxClient: 1}
	sc.Name += "-delaybounded"
	sc.MaxDev = 2
	sc.Crashes = 0
	return sc
}

func clientScenarios(tier string) []*simScenario {
	ops := []string{"update", "read", "barrier", "dirty", "batch2", "update+read", "read+update"}
	lead := []string{"T:1", "run"}
	if tier == "thorough" {
		return []*simScenario{
			clientFigure8(tier),
			clientPendingDeposed(),
			scenClient("leader", lead, ops, []string{"transfer:2", "demote:1"}, 3, true, false, 3, 2),
			scenClient("leader", lead, ops, []string{"transfer:2", "demote:1"}, 4, false, true, 3, 2),
			scenClient("isolated", []string{"T:1", "run", "block:1:2", "block:1:3"}, ops, nil, 3, true, false, 2, 2),
		}
	}
	return []*simScenario{
		clientFigure8(tier),
		clientPendingDeposed(),
		scenClient("leader", lead, ops, []string{"transfer:2", "demote:1"}, 2, true, false, 2, 1),
		scenClient("leader", lead, ops, []string{"transfer:2", "demote:1"}, 3, false, true, 2, 2),
		scenClient("isolated", []string{"T:1", "run", "block:1:2", "block:1:3"}, ops, nil, 2, true, false, 2, 1),
	}
}

func init() {
	for _, sc := range clientScenarios("quick") {
		simScenarios[sc.Name] = sc
	}
	c07 := &simCheckSpec{Prop: "C07", Oracles: []string{"client"},
		Scenarios: clientScenarios,
		Budget: func(tier string) time.Duration {
			if tier == "thorough" {
				return 40 * time.Minute
			}
			return 240 * time.Second
		},
		MustReach: []string{"commits", "linchecks"},
		Extra:     liveConformance,
		Note:      "update histories are checked twice: against the committed sequence recorded by the ledger (position, exactly-once, real-time order, rejected-never, ambiguous-at-most-once) and by porcupine v1.3.0 against an append-only-list model; reads/barriers by the explicit clauses (prefix of committed, reflects accepted updates)",
	}
	vkChecks["C07"] = func(args []string) int { return runSimCheck(c07, args) }
}
