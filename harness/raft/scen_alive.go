//go:build verif
// +build verif

package raft

import (
	"strings"
	"time"
)

// finalShutdown (C15): from an explored state, Shutdown is executed on every
// running node; it must return, every pending task must complete exactly once
// (with ErrServerClosed or its earlier result).
func finalShutdown(sc *simScenario, hist []simEvent) []simViolation {
	if sc.Final != "shutdown" {
		return nil
	}
	s, err := replayExpected(sc, hist)
	defer s.close()
	if err != nil {
		return nil
	}
	w := s.w
	var out []simViolation
	for _, n := range w.nodes {
		if !n.up {
			continue
		}
		if err := n.stop(); err != nil {
			out = append(out, simViolation{Oracle: "alive", Key: "shutdown-does-not-finish", Desc: "node " + itoa(int(n.id)) + ": " + err.Error(),
				Final: "shutdown", Prefix: append([]simEvent{}, hist...)})
			return out
		}
		n.abandon()
		if n.serveErr != ErrServerClosed && n.serveErr != ErrNodeRemoved {
			out = append(out, simViolation{Oracle: "alive", Key: "shutdown-serve-error:" + simErrClass(n.serveErr), Desc: "node " + itoa(int(n.id)) + ": Serve returned " + errString(n.serveErr) + " after Shutdown"})
		}
	}
	w.clock++
	w.pollTasks()
	w.led.checkTasks()
	for _, st := range w.tasks {
		if st.ret < 0 && !st.ghost && st.inc == w.nodes[st.node].inc {
			out = append(out, simViolation{Oracle: "alive", Key: "task-never-completed:" + st.kind, Desc: "task " + st.kind + " " + st.payload + " submitted to node " + itoa(st.node+1) + " is still pending after that node's Shutdown returned"})
		}
	}
	for _, v := range w.led.viol {
		if v.Oracle == "alive" {
			out = append(out, v)
		}
	}
	for i := range out {
		out[i].Final, out[i].Prefix = "shutdown", append([]simEvent{}, hist...)
	}
	return out
}

func itoa(i int) string { return fmtInt(i) }

func fmtInt(i int) string {
	if i == 0 {
		return "0"
	}
	neg := i < 0
	if neg {
		i = -i
	}
	var b []byte
	for i > 0 {
		b = append([]byte{byte('0' + i%10)}, b...)
		i /= 10
	}
	if neg {
		b = append([]byte{'-'}, b...)
	}
	return string(b)
}

func errString(err error) string {
	if err == nil {
		return "<nil>"
	}
	return err.Error()
}

// ---------------------------------------------------------------- C15 / C19 specs

func scenStress(dev int) *simScenario {
	return &simScenario{
		Name:   "stress",
		Opt:    worldOpt{Nodes: 4, Voters: []uint64{1, 2, 3}, EagerFSM: false, EagerLU: true, EagerConnect: true, Pad: 275, ShutOnRem: true},
		Script: []string{"T:1", "run", "update:1", "run", "update:1", "run", "update:1", "run"},
		Menu: simMenu{OrderCost: true, Timeouts: true, MaxTerm: 4, Drops: true, Crashes: true, Shutdowns: true, Snapshots: true, MaxSnaps: 2,
			Clients: []string{"update", "read", "barrier", "dirty", "batch2"}, MaxUpdates: 2, MaxClient: 1,
			Admin: []string{"transfer:2", "demote:3", "remove:1", "add:4:promote", "waitstable"}, MaxAdmin: 2},
		MaxDev:  dev,
		Crashes: 1,
		Final:   "shutdown",
	}
}

func aliveScenarios(tier string) []*simScenario {
	dev := 3
	if tier == "thorough" {
		dev = 4
	}
	// a transfer whose timeout-now answer is still held back when the transfer ends (by its timer, by step-down)
	late := scenTransfer(xferSeed{"late-answer", 3, []uint64{1, 2, 3}, nil, []string{"T:1", "run", "admin:1:transfer:2", "deliver:2"}, nil}, dev, false)
	late.Name = "alive-transfer-late-answer"
	late.Menu = simMenu{Timeouts: true, MaxTerm: 4, Drops: true}
	late.Crashes = 0
	late.Final = "shutdown"
	late.MaxDev = dev - 2
	// nodes that hold only their identity, bootstrapped through ChangeConfig while vote requests cross (D16)
	boot := &simScenario{
		Name:   "alive-bootstrap",
		Opt:    worldOpt{Nodes: 2, EagerFSM: true, EagerLU: true, EagerConnect: true},
		Menu:   simMenu{OrderCost: true, Timeouts: true, MaxTerm: 3, Admin: []string{"bootstrap"}, MaxAdmin: 2},
		MaxDev: dev,
		Final:  "shutdown",
	}
	// snapshot + compaction on a leader whose followers are all caught up, then more entries (D11)
	full := scenSnap(snapSeeds[snapSeedIndex("full")], dev-1, false, true, 1)
	full.Name = "alive-" + full.Name
	full.Final = "shutdown"
	full.Menu = simMenu{OrderCost: true, Snapshots: true, MaxSnaps: 1, Clients: []string{"update"}, MaxUpdates: 1, ClientNodes: []int{0}, Drops: true}
	full.Crashes = 0
	out := []*simScenario{late, boot, full, scenStress(dev)}
	for _, b := range []*simScenario{
		scenSnap(snapSeeds[snapSeedIndex("lagging")], dev, false, true, 2),
		scenMember(memberSeedByName("3v"), dev, 2, 0, true, nil, 1),
		scenTransfer(xferSeeds[0], dev, true),
		scenClient("leader", []string{"T:1", "run"}, []string{"update", "read", "barrier", "dirty", "batch2"}, []string{"transfer:2", "demote:1"}, dev, false, true, 2, 2),
	} {
		sc := cloneScenario(b)
		sc.Name = "alive-" + b.Name
		sc.Final = "shutdown"
		sc.Menu.OrderCost = true
		out = append(out, sc)
	}
	return out
}

func infoScenarios(tier string) []*simScenario {
	dev := 2
	if tier == "thorough" {
		dev = 3
	}
	var out []*simScenario
	// a delayed InstallSnapshot request arriving after a newer installation and further commits (D7)
	net := scenSnap(snapSeeds[snapSeedIndex("lagging")], dev, true, false, 0)
	net.Name = "info-snap-lagging-net"
	net.Menu = simMenu{Drops: true, Clients: []string{"update"}, MaxUpdates: 1, ClientNodes: []int{0}}
	out = append(out, net)
	// a follower's configuration fall-back after an overwritten configuration entry: above a snapshot of its own, and
	// after two configuration entries received in one request (regression scenarios of C08, here under the info oracle)
	for _, b := range []*simScenario{scenSnapUncommittedConfig(1), scenTwoConfigsOneRequest(1)} {
		sc := cloneScenario(b)
		sc.Name = "info-" + b.Name
		out = append(out, sc)
	}
	for _, b := range []*simScenario{
		scenMember(memberSeedByName("phantom-config"), dev, 1, 0, false, nil, 0),
		scenRepl(replSeedByName("divergent"), dev, false, 1, 1, 4),
		scenRepl(replSeedByName("lagging"), dev+1, false, 1, 1, 4),
		scenSnap(snapSeeds[snapSeedIndex("lagging")], dev+1, false, true, 2),
		scenSnap(snapSeeds[snapSeedIndex("lagging")], dev, true, false, 1),
		scenSnap(snapSeeds[snapSeedIndex("full")], dev+1, false, true, 2),
		scenMember(memberSeedByName("3v"), dev+1, 2, 0, true, nil, 1),
	} {
		sc := cloneScenario(b)
		sc.Name = "info-" + b.Name
		sc.Menu.Clients = append(append([]string(nil), sc.Menu.Clients...), "info")
		sc.Menu.MaxClient = 2
		sc.Menu.ClientNodes = nil
		sc.Menu.Dups = false
		sc.Menu.Cuts = false
		sc.Menu.Timeouts = b.Menu.OrderCost || strings.Contains(b.Name, "phantom-config")
		if b.Menu.OrderCost || dev+1 == sc.MaxDev {
			sc.Menu.OrderCost = true
		}
		out = append(out, sc)
	}
	return out
}

func init() {
	for _, sc := range append(aliveScenarios("quick"), infoScenarios("quick")...) {
		simScenarios[sc.Name] = sc
	}
	budget := func(tier string) time.Duration {
		if tier == "thorough" {
			return 40 * time.Minute
		}
		return 270 * time.Second
	}
	c15 := &simCheckSpec{Prop: "C15", Oracles: []string{"alive", "view"}, Extra: liveSupplement,
		Scenarios: aliveScenarios, Budget: budget, MustReach: []string{"commits"},
		Assume: []string{
			"the data-race clause cannot be decided by a cooperative explorer (its hand-offs are happens-before edges); it is covered only by the supplementary free-running -race pass reported under coverage.race_pass",
			"a panic, assertion failure or fatal error that would terminate the process is observed as Serve returning a panic / the worker process dying; a Log.Get through an unmapped segment (SIGSEGV in production) by the guard of harness/log/export_raft.go",
		}}
	vkChecks["C15"] = func(args []string) int { return runSimCheck(c15, args) }
	c19 := &simCheckSpec{Prop: "C19", Oracles: []string{"info"},
		Scenarios: infoScenarios, Budget: budget, MustReach: []string{"commits", "inforeports"},
		Assume: []string{"after every transition the status is read from the node's fields while all its goroutines are parked (the values a GetInfo task executed at that instant would copy); in addition real GetInfo tasks are submitted as explorer events and successive reports of one incarnation are compared"}}
	vkChecks["C19"] = func(args []string) int { return runSimCheck(c19, args) }
}
