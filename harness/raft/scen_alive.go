// +build verif

package raft

// finalShutdown (C15): from an explored state, Shutdown is executed on every
// running node; it must return, every pending task must complete exactly once
// (with ErrServerClosed or its earlier result).
func finalShutdown(sc *simScenario, hist []simEvent) []simViolation {
	if sc.Final != "shutdown" {
		return nil
	}
	s, err := replayHist(sc, hist)
	defer s.close()
	if err != nil {
		return nil
	}
	w := s.w
	var out []simViolation
	for _, n := range w.nodes {
		if !n.up {
			continue
		}
		if err := n.stop(); err != nil {
			out = append(out, simViolation{Oracle: "alive", Key: "shutdown-does-not-finish", Desc: "node " + itoa(int(n.id)) + ": " + err.Error()})
			return out
		}
		n.abandon()
		if n.serveErr != ErrServerClosed && n.serveErr != ErrNodeRemoved {
			out = append(out, simViolation{Oracle: "alive", Key: "shutdown-serve-error:" + simErrClass(n.serveErr), Desc: "node " + itoa(int(n.id)) + ": Serve returned " + errString(n.serveErr) + " after Shutdown"})
		}
	}
	w.clock++
	w.pollTasks()
	w.led.checkTasks()
	for _, st := range w.tasks {
		if st.ret < 0 && !st.ghost && st.inc == w.nodes[st.node].inc {
			out = append(out, simViolation{Oracle: "alive", Key: "task-never-completed:" + st.kind, Desc: "task " + st.kind + " " + st.payload + " submitted to node " + itoa(st.node+1) + " is still pending after that node's Shutdown returned"})
		}
	}
	for _, v := range w.led.viol {
		if v.Oracle == "alive" {
			out = append(out, v)
		}
	}
	return out
}

func itoa(i int) string { return fmtInt(i) }

func fmtInt(i int) string {
	if i == 0 {
		return "0"
	}
	neg := i < 0
	if neg {
		i = -i
	}
	var b []byte
	for i > 0 {
		b = append([]byte{byte('0' + i%10)}, b...)
		i /= 10
	}
	if neg {
		b = append([]byte{'-'}, b...)
	}
	return string(b)
}

func errString(err error) string {
	if err == nil {
		return "<nil>"
	}
	return err.Error()
}
