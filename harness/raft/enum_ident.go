//go:build verif
// +build verif

package raft

// C20 — "Cluster/node identity isolation and storage exclusivity".
// E-ENUM `ident`: exhaustive enumeration over stated finite domains, executed
// on the real code (no simulated world, no verifHooks installed).
//
//   (i)   enum_ident_hs.go      identity handshake matrix (deciding, exhaustive)
//   (ii)  enum_ident_cluster.go two clusters sharing node ids, address mix-up
//                               menu (bounded-exhaustive over the menu; the
//                               schedule is whatever the Go runtime does)
//   (iii) enum_ident_lock.go    storage exclusivity / identity immutability:
//                               all op sequences up to a length on one
//                               directory + all interleavings of the lock
//                               protocol at syscall granularity (deciding,
//                               exhaustive)
//
// Usage: vraft check C20 [--tier quick|thorough] [--parts hs,cluster,lock]
//                        [--replay <artefact.json>] [--workers N]

import (
	"bytes"
	"encoding/json"
	"fmt"
	"io/ioutil"
	"os"
	"os/exec"
	"runtime"
	"sort"
	"strings"
	"sync"
	"sync/atomic"
	"time"
)

func init() { vkChecks["C20"] = c20Check }

// c20Parallel runs fn(i) for i in [0,n) on `workers` goroutines.
func c20Parallel(n, workers int, fn func(i int)) {
	if workers < 1 {
		workers = 1
	}
	var next int64 = -1
	var wg sync.WaitGroup
	for w := 0; w < workers; w++ {
		wg.Add(1)
		go func() {
			defer wg.Done()
			for {
				i := int(atomic.AddInt64(&next, 1))
				if i >= n {
					return
				}
				fn(i)
			}
		}()
	}
	wg.Wait()
}

// c20Child runs this binary again with the given sub-command (the library
// deliberately crashes the process on failed assertions, so everything that
// runs real nodes is isolated).  crash is the first "panic:"/"fatal error:"
// line of a child that died.
func c20Child(input interface{}, args ...string) (out []byte, crash string, err error) {
	exe, err := os.Executable()
	if err != nil {
		return nil, "", err
	}
	cmd := exec.Command(exe, args...)
	if input != nil {
		b, _ := json.Marshal(input)
		cmd.Stdin = bytes.NewReader(b)
	}
	var stderr bytes.Buffer
	cmd.Stderr = &stderr
	out, err = cmd.Output()
	if err != nil {
		for _, line := range strings.Split(stderr.String(), "\n") {
			if strings.HasPrefix(line, "panic: ") || strings.HasPrefix(line, "fatal error: ") {
				crash = line
				break
			}
		}
		if crash == "" {
			crash = "child failed: " + err.Error() + ": " + strings.TrimSpace(stderr.String()[:c20MinInt(stderr.Len(), 300)])
		}
		// where it happened: the first frame inside the library proper
		for _, line := range strings.Split(stderr.String(), "\n") {
			if strings.HasPrefix(line, "github.com/santhosh-tekuri/raft.") && !strings.Contains(line, "recoverErr") && !strings.Contains(line, ".func") && !strings.Contains(line, "raft.assert") && !strings.Contains(line, "c20") {
				crash += " at " + strings.SplitN(strings.TrimPrefix(line, "github.com/santhosh-tekuri/raft."), "(0x", 2)[0]
				break
			}
		}
	}
	return out, crash, err
}

func init() {
	vkCommands["c20hsworker"] = func(args []string) int {
		var from, to int
		if len(args) != 2 {
			return 2
		}
		fmt.Sscan(args[0], &from)
		fmt.Sscan(args[1], &to)
		cases := c20HSCases()
		tw, err := c20NewTimerWorld()
		if err != nil {
			fmt.Fprintln(os.Stderr, err)
			return 1
		}
		defer tw.close()
		var out []*c20HSResult
		for i := from; i < to && i < len(cases); i++ {
			out = append(out, c20RunHSCase(cases[i], tw))
		}
		b, _ := json.Marshal(out)
		os.Stdout.Write(b)
		return 0
	}
	vkCommands["c20worldworker"] = func(args []string) int {
		var wc c20WorldCase
		if err := json.NewDecoder(os.Stdin).Decode(&wc); err != nil {
			fmt.Fprintln(os.Stderr, err)
			return 2
		}
		b, _ := json.Marshal(c20RunWorld(wc))
		os.Stdout.Write(b)
		return 0
	}
}

// c20Distinct counts distinct (case class, outcome) pairs.
type c20Distinct struct {
	mu sync.Mutex
	m  map[string]int
}

func (d *c20Distinct) add(part, class, outcome string) {
	d.mu.Lock()
	if d.m == nil {
		d.m = map[string]int{}
	}
	d.m[part+" | "+class+" => "+outcome]++
	d.mu.Unlock()
}

func (d *c20Distinct) count(prefix string) int {
	d.mu.Lock()
	defer d.mu.Unlock()
	n := 0
	for k := range d.m {
		if strings.HasPrefix(k, prefix) {
			n++
		}
	}
	return n
}

func (d *c20Distinct) keys() []string {
	d.mu.Lock()
	defer d.mu.Unlock()
	var out []string
	for k := range d.m {
		out = append(out, k)
	}
	sort.Strings(out)
	return out
}

type c20Ctx struct {
	run      *vkRun
	tier     string
	workers  int
	distinct c20Distinct
	samples  vkSamples
	notes    []string
	notesMu  sync.Mutex
	evals    int64
	harness  int64 // harness errors (cases that could not be decided)
}

func (c *c20Ctx) note(format string, a ...interface{}) {
	c.notesMu.Lock()
	c.notes = append(c.notes, fmt.Sprintf(format, a...))
	c.notesMu.Unlock()
}

func (c *c20Ctx) harnessErr(where string, format string, a ...interface{}) {
	atomic.AddInt64(&c.harness, 1)
	msg := fmt.Sprintf(format, a...)
	// not a finding about the library: the case is reported as not decided (coverage.harness_errors,
	// coverage.harness_error_notes, exhaustive:false) and never as a violation
	c.note("HARNESS could not decide (%s): %s", where, msg)
	fmt.Printf("NOTE C20: the harness could not decide a case (%s): %s\n", where, firstLine(msg))
}

func c20Check(args []string) int {
	tier := vkTier(args)
	if f := vkArg(args, "replay", ""); f != "" {
		return c20Replay(f)
	}
	cleanup := vkScratchRoot()
	defer cleanup()
	run := vkNewRun("C20", tier, "exploration")
	ctx := &c20Ctx{run: run, tier: tier, samples: vkSamples{max: 12}}
	ctx.workers = vkArgInt(args, "workers", 0)
	if ctx.workers == 0 {
		ctx.workers = runtime.NumCPU() / 2
		if ctx.workers > 8 {
			ctx.workers = 8
		}
		if ctx.workers < 2 {
			ctx.workers = 2
		}
	}
	hooksBefore := c20HooksFingerprint()
	parts := map[string]bool{}
	for _, p := range strings.Split(vkArg(args, "parts", "hs,cluster,lock"), ",") {
		parts[strings.TrimSpace(p)] = true
	}
	exhaustive := true
	timings := map[string]float64{}
	partDone := map[string]bool{"cluster_schedules": false}
	timed := func(name string, fn func() bool) {
		if !parts[name] {
			exhaustive = false
			ctx.note("part %s was not run (--parts)", name)
			return
		}
		t0 := time.Now()
		ok := fn()
		partDone[name] = ok
		if !ok {
			exhaustive = false
		}
		timings[name] = float64(int(time.Since(t0).Seconds()*100)) / 100
	}
	timed("hs", func() bool { return c20PartHandshake(ctx) })
	timed("lock", func() bool { return c20PartLock(ctx) })
	timed("cluster", func() bool { return c20PartCluster(ctx) })
	if after := c20HooksFingerprint(); after != hooksBefore {
		ctx.harnessErr("hooks", "verifHooks changed during the run: %s -> %s", hooksBefore, after)
	}

	cov := run.Cov
	cov["evaluations"] = int(atomic.LoadInt64(&ctx.evals))
	cov["distinct_nontrivial"] = ctx.distinct.count("")
	cov["distinct_classes"] = ctx.distinct.keys()
	cov["rule"] = c20Rule
	cov["samples"] = ctx.samples.list
	cov["exhaustive"] = exhaustive && atomic.LoadInt64(&ctx.harness) == 0
	cov["exhaustive_parts"] = "exhaustive=true means: the handshake matrix (i) and the lock sequences/interleavings (iii) were enumerated completely over the stated domains, and every item of the mix-up menu (ii) was run; the SCHEDULES of part (ii) are not enumerated (runtime scheduling), so (ii) is bounded-exhaustive over its menu only"
	cov["exhaustive_by_part"] = partDone
	cov["part_wall_s"] = timings
	cov["workers"] = ctx.workers
	cov["harness_errors"] = int(atomic.LoadInt64(&ctx.harness))
	sort.Strings(ctx.notes)
	cov["notes"] = ctx.notes
	run.Assumptions = c20Assumptions
	return run.Finish()
}

const c20Rule = "(i) full product dialer belief {1,2}x{1,2} x listener identity {1,2}x{1,2} x request {vote, append+2 entries, installSnapshot, timeoutNow} x {fresh, pooled reuse, peer replaced at the same address} through the real connPool and the real Serve; plus raw dialers ignoring/pipelining the handshake against the real listener, the real getConn against a stand-in listener answering with every rpcResult 0..12,255/close/truncation/silence, and replyRPC called directly for every (belief, identity, leader in {0,1,2}, src in {1,2}). " +
	"(ii) every item of the address mix-up menu x affected node x which cluster is active, real nodes, runtime scheduling. " +
	"(iii) every sequence up to the tier's length over the storage operation alphabet on one directory against a reference model, and every interleaving of the lockDir/unlockDir syscall steps of 2 (thorough: 3, reduced) contenders on the real file system. " +
	"evaluations = cases executed. distinct_nontrivial = number of distinct (part, case class, outcome) pairs actually observed, where the case class abstracts the case to the values the anchored code branches on (identity relation match/cid-differs/nid-differs/both, request type, connection mode; mix-up kind; operation with holder/stored-identity relation; interleaving outcome vector) and outcome is the observed result class (error class, listener changed or not, requests processed, winner). Operations the library never performs (unlock by a non-holder, crash of an instance that holds nothing) are skipped as trivial and not counted."

var c20Assumptions = []string{
	"peers run this library: every dialer sends the identity request first (a connection that never sends it is served; recorded under notes, outside the statement)",
	"the in-memory network delivers bytes reliably and in order; a write towards a closed peer is accepted and dropped (like the first write on a reset TCP connection) so that every byte a dialer tries to send is seen",
	"part (ii): schedules are those the Go runtime produces with millisecond timers; only the menu is enumerated completely",
	"part (iii) interleavings: lockDir is re-implemented as a list of atomic steps, one real os call per step, copied from util.go; correspondence is guarded by a source hash and by a behavioural comparison with the real lockDir on every sequential scenario; each os call is assumed atomic (file system: tmpfs/local, not NFS)",
	"crash of a serving instance is simulated in-process by graceful shutdown followed by re-creating the lock file exactly as lockDir leaves it; one real kill -9 of a serving child process confirms that this is the directory state a crash leaves",
}

// c20HooksFingerprint tells which verifHooks are set (the check must not change them).
func c20HooksFingerprint() string {
	h := &verifHooks
	b := []bool{h.idle != nil, h.fsm != nil, h.timer != nil, h.replTakeover != nil, h.replEvent != nil, h.spawn != nil, h.done != nil, h.point != nil, h.pointTask != nil, h.reply != nil}
	return fmt.Sprint(b)
}

// ---------------------------------------------------------------- part (i) driver

func c20HSCases() []c20HSCase {
	var cases []c20HSCase
	for _, b := range c20Idents {
		for _, a := range c20Idents {
			for _, k := range c20ReqKinds {
				for _, m := range []string{"fresh", "reuse", "replaced"} {
					cases = append(cases, c20HSCase{Part: "lib", Belief: b, Actual: a, Kind: k, Mode: m})
				}
				for _, m := range []string{"ignore-reply", "pipelined"} {
					cases = append(cases, c20HSCase{Part: "raw", Belief: b, Actual: a, Kind: k, Mode: m})
				}
			}
		}
	}
	for _, k := range c20ReqKinds {
		cases = append(cases, c20HSCase{Part: "nohandshake", Belief: c20Ident{1, 1}, Actual: c20Ident{1, 2}, Kind: k, Mode: "none"})
		for _, ans := range c20StubAnswers {
			cases = append(cases, c20HSCase{Part: "stub", Belief: c20Ident{1, 2}, Kind: k, Mode: ans})
		}
	}
	for _, b := range c20Idents {
		for _, a := range c20Idents {
			for _, ldr := range []uint64{0, 1, 2} {
				for _, src := range []uint64{1, 2} {
					cases = append(cases, c20HSCase{Part: "timer", Belief: b, Actual: a, Leader: ldr, Src: src})
				}
			}
		}
	}
	return cases
}

func c20RunHSCase(cs c20HSCase, tw *c20TimerWorld) *c20HSResult {
	switch cs.Part {
	case "stub":
		return c20RunStub(cs)
	case "timer":
		return tw.run(cs)
	}
	return c20RunHS(cs)
}

func c20PartHandshake(ctx *c20Ctx) bool {
	cases := c20HSCases()
	results := make([]*c20HSResult, len(cases))
	const chunk = 16
	nchunks := (len(cases) + chunk - 1) / chunk
	runChunk := func(from, to int) (crash string) {
		out, crash, err := c20Child(nil, "c20hsworker", fmt.Sprint(from), fmt.Sprint(to))
		if err != nil {
			return crash
		}
		var rs []*c20HSResult
		if err := json.Unmarshal(out, &rs); err != nil || len(rs) != to-from {
			return fmt.Sprintf("child %d..%d: bad output (%v)", from, to, err)
		}
		copy(results[from:to], rs)
		return ""
	}
	c20Parallel(nchunks, ctx.workers, func(ci int) {
		from, to := ci*chunk, (ci+1)*chunk
		if to > len(cases) {
			to = len(cases)
		}
		if runChunk(from, to) == "" {
			return
		}
		// a child died: run its cases one by one to find which
		for i := from; i < to; i++ {
			if crash := runChunk(i, i+1); crash != "" {
				results[i] = &c20HSResult{Case: cases[i]}
				results[i].fail("process-crashed:"+cases[i].Part+","+c20MismatchClass(cases[i].Belief, cases[i].Actual)+":"+c20Normalize(crash), "the process running %v died: %s", cases[i], crash)
			}
		}
	})
	var libCases, matchProc, mismatchProc, nohs, reused, timerResets int
	timerFail := false
	for i, r := range results {
		cs := cases[i]
		atomic.AddInt64(&ctx.evals, 1)
		if r.Harness != "" {
			ctx.harnessErr("hs", "%v: %s", cs, r.Harness)
			continue
		}
		match := cs.Belief == cs.Actual
		switch cs.Part {
		case "lib", "raw":
			libCases++
			if match {
				matchProc += r.Processed + r.Warm
			} else {
				mismatchProc += r.Processed
				matchProc += r.Warm // the warm-up of mode "replaced" went to a matching node
			}
			if r.Reused && match {
				reused++
			}
		case "stub":
			libCases++
		case "nohandshake":
			nohs += r.Processed
		case "timer":
			if r.Reset && !match {
				timerResets++
			}
		}
		last := c20Attempt{}
		if len(r.Attempts) > 0 {
			last = r.Attempts[len(r.Attempts)-1]
		}
		class := fmt.Sprintf("%s %s %v %s", cs.Part, c20MismatchClass(cs.Belief, cs.Actual), cs.Kind, cs.Mode)
		outcome := fmt.Sprintf("dialer=%s/%d listener-changed=%v processed=%d", last.ErrCls, last.Result, r.Before != r.After, r.Processed)
		switch cs.Part {
		case "stub":
			class = fmt.Sprintf("stub %s %v", c20StubClass(cs.Mode), cs.Kind)
			if cs.Mode == "result=1" {
				class = fmt.Sprintf("stub success %v", cs.Kind)
			}
		case "timer":
			class = fmt.Sprintf("timer %s leader=%v src==leader:%v", c20MismatchClass(cs.Belief, cs.Actual), cs.Leader != 0, cs.Src == cs.Leader)
			outcome = fmt.Sprintf("result=%d reset=%v", last.Result, r.Reset)
		}
		ctx.distinct.add("hs", class, outcome)
		if i%97 == 0 || (cs.Part == "lib" && cs.Mode == "replaced" && cs.Kind == c20Append && cs.Belief == c20Ident{1, 1} && cs.Actual.CID == 2) {
			ctx.samples.Add(map[string]interface{}{"part": "hs", "case": cs.String(), "attempts": r.Attempts, "before": r.Before.String(), "after": r.After.String(), "conns": r.Conns})
		}
		for _, f := range r.Fails {
			kv := strings.SplitN(f, "\x00", 2)
			if strings.HasPrefix(kv[0], "foreign-handshake-resets-election-timer") {
				timerFail = true
			}
			ctx.run.Violation(kv[0], kv[1], map[string]interface{}{"part": "hs", "case": cs})
		}
	}
	if timerFail {
		// confirm the consequence end to end on the real Serve
		with, without, n, err := c20TimerDemo()
		if err != nil {
			ctx.note("timer demo could not run: %v", err)
		} else {
			ctx.note("timer-reset demo on the real Serve (hb=100ms, 1.5s): follower of cluster 1 with a silent leader, dialled %d times by cluster 2's node with the leader's id: {%v}; without the foreign dialer: {%v}", n, with, without)
			ctx.run.Cov["timer_demo"] = map[string]interface{}{"foreign_handshakes": n, "with_foreign_dialer": with.String(), "without": without.String()}
		}
	}
	cov := ctx.run.Cov
	cov["handshake_cases"] = len(cases)
	cov["handshake_cases_lib_matrix"] = 16 * 4 * 3
	cov["requests_processed_matching"] = matchProc
	cov["requests_processed_mismatching"] = mismatchProc
	cov["pooled_reuses_observed"] = reused
	cov["timer_resets_by_foreign_handshake"] = timerResets
	if nohs > 0 {
		ctx.note("a connection that never sends the identity request is served: %d of 4 request types were processed without any handshake (handleConn does not require the handshake first); outside the statement because library dialers always send it", nohs)
	}
	if matchProc == 0 {
		ctx.harnessErr("hs", "vacuous: no request was processed with matching identities")
		return false
	}
	return true
}

// ---------------------------------------------------------------- replay

func c20Replay(file string) int {
	b, err := ioutil.ReadFile(file)
	if err != nil {
		fmt.Println("replay:", err)
		return 2
	}
	var art struct {
		Key    string          `json:"key"`
		Desc   string          `json:"desc"`
		Replay json.RawMessage `json:"replay"`
	}
	if err := json.Unmarshal(b, &art); err != nil {
		fmt.Println("replay:", err)
		return 2
	}
	var head struct {
		Part string `json:"part"`
	}
	_ = json.Unmarshal(art.Replay, &head)
	cleanup := vkScratchRoot()
	defer cleanup()
	fmt.Printf("replaying %s\n  recorded: %s\n", art.Key, art.Desc)
	var fails []string
	switch head.Part {
	case "hs":
		var x struct {
			Case c20HSCase `json:"case"`
		}
		if err := json.Unmarshal(art.Replay, &x); err != nil {
			fmt.Println("replay:", err)
			return 2
		}
		tw, err := c20NewTimerWorld()
		if err != nil {
			fmt.Println("replay:", err)
			return 2
		}
		defer tw.close()
		r := c20RunHSCase(x.Case, tw)
		out, _ := json.MarshalIndent(r, "", " ")
		fmt.Println(string(out))
		fails = r.Fails
		if r.Harness != "" {
			fmt.Println("harness error:", r.Harness)
			return 2
		}
	case "lock":
		fails = c20ReplayLock(art.Replay)
	case "cluster":
		fails = c20ReplayCluster(art.Replay)
	default:
		fmt.Println("replay: artefact has no replayable part:", head.Part)
		return 2
	}
	rc := 0
	for _, f := range fails {
		kv := strings.SplitN(f, "\x00", 2)
		fmt.Printf("REPRODUCED key=%s: %s\n", kv[0], kv[1])
		rc = 1
	}
	if rc == 0 {
		fmt.Println("not reproduced: the replayed case satisfies the oracles")
	}
	_ = os.Stdout.Sync()
	return rc
}
