// +build verif

package raft

// C05 — One durable vote per term; the term never goes backwards.
//
// Exhaustive enumeration on the REAL code (one real node per case):
//   voter states x events (singles: full product), all ordered pairs (quick)
//   and triples (thorough) of events from a reduced menu, each sequence with a
//   crash + restart at every position between events and at every verifPoint
//   inside storage.setVotedFor / setTerm / value.set; plus the storage-level
//   setters themselves (term only increases: the assertions) and the candidate
//   side (startElection persists (term+1,self) before a request leaves).
// Oracles: enum_vote_oracle.go.  Execution: enum_vote_exec.go.
//
//   vraft check C05 --tier quick|thorough [--workers n] [--cap-s s]
//   vraft check C05 --replay <artefact or case .json>

import (
	"encoding/json"
	"fmt"
	"io/ioutil"
	"os"
	"runtime"
	"runtime/pprof"
	"sort"
	"strings"
	"sync"
	"time"
)

func init() { vkChecks["C05"] = c05Check }

// ---------------------------------------------------------------- domains

func c05Reachable(v c05Voter) bool {
	if v.LogTerm > v.Term {
		return false // a log never holds an entry of a term above the current term
	}
	switch v.State {
	case "C":
		return v.VotedFor == c05Self && v.Leader == 0 // follower.onTimeout clears the leader before becoming candidate
	case "L":
		return v.VotedFor == c05Self && v.Leader == c05Self
	}
	return v.Leader != c05Self
}

func c05Shapes(thorough bool) [][2]uint64 {
	s := [][2]uint64{{1, 1}, {3, 2}, {3, 3}}
	if thorough {
		s = append(s, [2]uint64{2, 2}, [2]uint64{4, 3})
	}
	return s
}

// c05Voters: term x votedFor x known leader x state x last log, consistent
// combinations only (a candidate/leader voted for itself, a leader knows
// itself as leader); combinations that are consistent field by field but that
// no execution reaches (log term above current term, candidate that still
// knows a leader) are kept as a superset and flagged reachable:false.
func c05Voters(thorough bool) []c05Voter {
	var out []c05Voter
	for _, term := range []uint64{2, 3} {
		for _, sh := range c05Shapes(thorough) {
			add := func(state string, voted, leader uint64) {
				v := c05Voter{Term: term, VotedFor: voted, Leader: leader, State: state, LogIndex: sh[0], LogTerm: sh[1]}
				v.Reachable = c05Reachable(v)
				out = append(out, v)
			}
			for _, voted := range []uint64{0, c05A, c05B, c05Self} {
				for _, leader := range []uint64{0, c05A, c05B} {
					add("F", voted, leader)
				}
			}
			for _, leader := range []uint64{0, c05A, c05B} {
				add("C", c05Self, leader)
			}
			add("L", c05Self, c05Self)
		}
	}
	return out
}

type c05Spec struct {
	Type     string
	DTerm    int
	Src      uint64
	LogRel   string
	Transfer bool
}

var c05LogRels = []string{"behind-by-term", "behind-by-index", "equal", "ahead-by-term", "ahead-by-index"}

func c05RelLog(rel string, li, lt uint64) (uint64, uint64) {
	switch rel {
	case "behind-by-term": // longer log, older last term: still behind
		return li + 1, lt - 1
	case "behind-by-index":
		return li - 1, lt
	case "ahead-by-term": // shorter log, newer last term: ahead
		return li - 1, lt + 1
	case "ahead-by-index":
		return li + 1, lt
	}
	return li, lt
}

func c05DT(d int) string {
	switch {
	case d < 0:
		return fmt.Sprintf("t%d", d)
	case d > 0:
		return fmt.Sprintf("t+%d", d)
	}
	return "t"
}

func (s c05Spec) event(v c05Voter) c05Event {
	ev := c05Event{Type: s.Type, Term: uint64(int(v.Term) + s.DTerm), Src: s.Src, Transfer: s.Transfer}
	switch s.Type {
	case "vote":
		ev.LastLogIndex, ev.LastLogTerm = c05RelLog(s.LogRel, v.LogIndex, v.LogTerm)
		ev.Label = fmt.Sprintf("vote(%s,%s,%s,transfer=%v)", c05DT(s.DTerm), c05Name(s.Src), s.LogRel, s.Transfer)
	case "heartbeat":
		ev.Label = fmt.Sprintf("heartbeat(%s,%s)", c05DT(s.DTerm), c05Name(s.Src))
	case "election":
		ev.Term, ev.Src = 0, 0
		ev.Label = fmt.Sprintf("election(transfer=%v)", s.Transfer)
	case "setTerm":
		ev.Src = 0
		ev.Label = fmt.Sprintf("setTerm(%s)", c05DT(s.DTerm))
	case "setVotedFor":
		ev.Label = fmt.Sprintf("setVotedFor(%s,%s)", c05DT(s.DTerm), c05Name(s.Src))
	}
	return ev
}

func c05VoteSpecs(dterms []int, rels []string) []c05Spec {
	var out []c05Spec
	for _, dt := range dterms {
		for _, src := range []uint64{c05A, c05B} {
			for _, rel := range rels {
				for _, tr := range []bool{false, true} {
					out = append(out, c05Spec{"vote", dt, src, rel, tr})
				}
			}
		}
	}
	return out
}

// singles: the full product of the request domain, plus the events that reach
// setTerm (append request without entries) and the candidate side.
func c05SingleMenu() []c05Spec {
	m := c05VoteSpecs([]int{0, 1, 2, -1}, c05LogRels)
	for _, dt := range []int{0, 1, 2, -1} {
		for _, src := range []uint64{c05A, c05B} {
			m = append(m, c05Spec{Type: "heartbeat", DTerm: dt, Src: src})
		}
	}
	m = append(m, c05Spec{Type: "election"}, c05Spec{Type: "election", Transfer: true})
	return m
}

// pairs: reduced menu (one refusing and one granting log relation).  The quick
// tier leaves out request term t-1: such a request is stale at every position
// of a sequence (singles cover it for every voter state, and pairs with a
// request of term t after one of term t+1/t+2 cover "stale after a change").
func c05PairMenu(thorough bool) []c05Spec {
	dterms := []int{0, 1, 2}
	if thorough {
		dterms = []int{0, 1, 2, -1}
	}
	m := c05VoteSpecs(dterms, []string{"behind-by-index", "equal"})
	m = append(m, c05Spec{Type: "heartbeat", DTerm: 0, Src: c05A}, c05Spec{Type: "heartbeat", DTerm: 1, Src: c05A})
	m = append(m, c05Spec{Type: "election"})
	return m
}

// triples: reduced further (terms t..t+2, granting log relation, one request
// with a log that is behind).
func c05TripleMenu() []c05Spec {
	m := c05VoteSpecs([]int{0, 1, 2}, []string{"equal"})
	m = append(m, c05Spec{"vote", 1, c05A, "behind-by-index", false})
	m = append(m, c05Spec{Type: "heartbeat", DTerm: 0, Src: c05A}, c05Spec{Type: "heartbeat", DTerm: 1, Src: c05A})
	m = append(m, c05Spec{Type: "election"})
	return m
}

func c05SetterVoters() []c05Voter {
	var out []c05Voter
	for _, term := range []uint64{2, 3} {
		for _, voted := range []uint64{0, c05A, c05B, c05Self} {
			out = append(out, c05Voter{Term: term, VotedFor: voted, State: "F", LogIndex: 1, LogTerm: 1, Reachable: true})
		}
	}
	return out
}

func c05SetterMenu() []c05Spec {
	var m []c05Spec
	for _, dt := range []int{-1, 0, 1, 2} {
		m = append(m, c05Spec{Type: "setTerm", DTerm: dt})
		for _, c := range []uint64{0, c05A, c05B, c05Self} {
			m = append(m, c05Spec{Type: "setVotedFor", DTerm: dt, Src: c})
		}
	}
	return m
}

// ---------------------------------------------------------------- statistics

type c05DKey struct {
	pre      c05Pre
	typ      string
	term     uint64
	src      uint64
	lli, llt uint64
	transfer bool
	fault    bool
	result   rpcResult
	panicked bool
	dt, dv   uint64
}

type c05Stats struct {
	Boots, Events, Sequences, Singles, FaultRuns int64
	Images, Restarts, Panics, Divergence         int64
	ImagesEquivalent, PanicsNoFault              int64
	Skipped, Elections, WireObs                  int64
	Hist, HistSingles, RefDis, PointHist         map[string]int64
	Nontrivial, Trivial                          map[c05DKey]struct{}
	Errors                                       []string
}

func (s *c05Stats) init() {
	s.Hist, s.HistSingles, s.RefDis, s.PointHist = map[string]int64{}, map[string]int64{}, map[string]int64{}, map[string]int64{}
	s.Nontrivial, s.Trivial = map[c05DKey]struct{}{}, map[c05DKey]struct{}{}
}

func (s *c05Stats) merge(o *c05Stats) {
	s.Boots += o.Boots
	s.Events += o.Events
	s.Sequences += o.Sequences
	s.Singles += o.Singles
	s.FaultRuns += o.FaultRuns
	s.Images += o.Images
	s.ImagesEquivalent += o.ImagesEquivalent
	s.PanicsNoFault += o.PanicsNoFault
	s.Restarts += o.Restarts
	s.Panics += o.Panics
	s.Divergence += o.Divergence
	s.Skipped += o.Skipped
	s.Elections += o.Elections
	s.WireObs += o.WireObs
	for k, v := range o.Hist {
		s.Hist[k] += v
	}
	for k, v := range o.HistSingles {
		s.HistSingles[k] += v
	}
	for k, v := range o.RefDis {
		s.RefDis[k] += v
	}
	for k, v := range o.PointHist {
		s.PointHist[k] += v
	}
	for k := range o.Nontrivial {
		s.Nontrivial[k] = struct{}{}
	}
	for k := range o.Trivial {
		s.Trivial[k] = struct{}{}
	}
	for _, e := range o.Errors {
		if len(s.Errors) < 20 {
			s.Errors = append(s.Errors, e)
		}
	}
}

func (w *c05Worker) harnessErr(format string, a ...interface{}) {
	if len(w.st.Errors) < 20 {
		w.st.Errors = append(w.st.Errors, fmt.Sprintf(format, a...))
	}
}

// account files one executed event under the coverage counters.
// Rule for "non-trivial": the handler got past the guards that reject a
// request before any state is examined or touched — for a vote request the
// result is neither leaderKnown nor staleTerm, for an append request not
// staleTerm, an election that is started, a setter call whose arguments differ
// from the current value.
func (w *c05Worker) account(cs *c05Case, single bool, pre c05Pre, ev *c05Event, fault, faultRun bool, o *c05Outcome, dt, dv uint64) {
	st := &w.st
	st.Events++
	if o.Skipped {
		st.Skipped++
		return
	}
	k := c05DKey{pre: pre, typ: ev.Type, term: ev.Term, src: ev.Src, lli: ev.LastLogIndex, llt: ev.LastLogTerm,
		transfer: ev.Transfer, fault: fault, result: o.Result, panicked: o.Panicked, dt: dt, dv: dv}
	trivial := false
	switch ev.Type {
	case "vote":
		name := c05ResultName(o.Result)
		st.Hist[name]++
		if single && !faultRun {
			st.HistSingles[name]++
		}
		trivial = o.Result == leaderKnown || o.Result == staleTerm
		if !faultRun && o.Replied {
			ref := c05RefGrant(pre, ev)
			if ref != (o.Result == success) {
				st.RefDis[fmt.Sprintf("impl=%s textbook=%s class=%s", name, map[bool]string{true: "grant", false: "refuse"}[ref], c05Class(pre, ev, false))]++
			}
		}
	case "heartbeat":
		trivial = o.Result == staleTerm
	case "election":
		st.Elections++
		st.WireObs += int64(len(o.Wire))
	case "setTerm":
		trivial = ev.Term == pre.Term
	case "setVotedFor":
		trivial = ev.Term == pre.Term && ev.Src == pre.VotedFor
	}
	if o.Panicked {
		st.Panics++
		if !faultRun && ev.Type != "setTerm" && ev.Type != "setVotedFor" {
			st.PanicsNoFault++
		}
	}
	if trivial {
		st.Trivial[k] = struct{}{}
	} else {
		st.Nontrivial[k] = struct{}{}
	}
}

// ---------------------------------------------------------------- exploring one case

type c05PathEmit func(path *c05Case, key, desc string)

func c05PointRank(p string) int {
	for i, x := range []string{"before", "term.pre", "vote.pre", "value.renamed", "value.synced", "term.post", "vote.post", "after", "died"} {
		if x == p {
			return i
		}
	}
	return 15
}

// explore runs the case.  all=true: the path without crash plus one path per
// crash point that exists in it (every image is reopened and the remaining
// events are delivered to the restarted node).  all=false: exactly the path
// described by cs.Crash / cs.Fault.
func (w *c05Worker) explore(cs *c05Case, all bool, emit c05PathEmit) (traces [][]string) {
	defer w.cleanup()
	n, err := w.bootVoter(cs.Voter)
	if err != nil {
		w.harnessErr("boot %s: %v", c05CaseString(cs), err)
		return
	}
	single := len(cs.Events) == 1
	L := c05NewLedger(cs.Voter, cs.Layer == "setter")
	if w.trace {
		L.Trace = append(L.Trace, fmt.Sprintf("node started: %s (directory holds %s)", c05PreString(c05PreOf(n.r)), c05DiskString(c05ReadDisk(n.dir))))
	}
	base := cs
	if all && cs.Crash != nil {
		base = cs.clone()
		base.Crash = nil
	}
	want := func(at int, point string) bool {
		if all {
			return true
		}
		return cs.Crash != nil && cs.Crash.At == at && cs.Crash.Point == point
	}
	var images []*c05Image
	lastAt, lastListing := -1, ""
	take := func(img *c05Image) {
		if !want(img.At, img.Point) || L.Poisoned {
			return
		}
		if all && img.Point != "after" && img.Point != "before" {
			// Points inside one handler share the ledger (no reply has left);
			// if the directory is identical to the image taken at the previous
			// point of the same event, the restart is the same computation:
			// it is reopened once and counted as equivalent.
			ls := c05Listing(n.dir)
			if img.At == lastAt && ls == lastListing {
				w.st.ImagesEquivalent++
				return
			}
			lastAt, lastListing = img.At, ls
		}
		d, err := w.snapshot(n.dir)
		if err != nil {
			w.harnessErr("snapshot: %v", err)
			return
		}
		img.Dir, img.L = d, L.clone()
		images = append(images, img)
		w.st.Images++
		w.st.PointHist[img.Point]++
	}
	voterStr := "voter " + c05PreString(c05PreOf(n.r))
	if single || !all {
		// a restart before anything is delivered: for longer sequences this is
		// the sequence started from the follower/no-leader voter state, which
		// is enumerated anyway
		take(&c05Image{At: 0, Point: "before", Cls: "initial", Where: voterStr})
	}
	stopAfter, runBase := -1, true
	if !all && cs.Crash != nil {
		stopAfter = cs.Crash.At
		if cs.Crash.Point == "before" {
			runBase = false // only generated for At == 0: the node restarts before anything is delivered
		}
	}
	baseEmit := func(k int, key, desc string) {
		if !all && cs.Crash != nil && k == cs.Crash.At && cs.Crash.Point != "after" {
			return // this reply was never produced on the requested path
		}
		emit(base, key, desc)
	}
	if runBase {
		w.runPath(n, L, cs, 0, stopAfter, true, single, take, baseEmit)
	}
	if all || cs.Crash == nil {
		traces = append(traces, L.Trace)
	}
	for _, img := range images {
		path := cs.clone()
		path.Crash = &c05Crash{At: img.At, Point: img.Point}
		path.Fault = nil
		pemit := func(k int, key, desc string) { emit(path, key, desc) }
		L2 := img.L
		n2, err := w.open(img.Dir)
		w.st.Restarts++
		if err != nil {
			emit(path, "restart-fails:"+img.Point+","+img.Cls, fmt.Sprintf("%s; crash at %q: New fails on the image: %v", img.Where, img.Point, err))
			continue
		}
		if L2.Poisoned {
			continue
		}
		if w.trace {
			L2.Trace = append(L2.Trace, fmt.Sprintf("CRASH at event %d point %q; restart on the image: node holds (%d,%s) log (%d,%d)",
				img.At, img.Point, n2.r.term, c05Name(n2.r.votedFor), n2.r.lastLogIndex, n2.r.lastLogTerm))
		}
		L2.judgeReopen(img, n2.r, func(key, desc string) { emit(path, key, desc) })
		from := img.At + 1
		if img.Point == "before" {
			from = img.At
		}
		w.runPath(n2, L2, cs, from, -1, false, false, nil, pemit)
		traces = append(traces, L2.Trace)
	}
	return
}

// runPath delivers events[from:] to node n.
func (w *c05Worker) runPath(n *c05Node, L *c05Ledger, cs *c05Case, from, stopAfter int, faultOK, single bool,
	take func(*c05Image), emit func(k int, key, desc string)) {
	for k := from; k < len(cs.Events); k++ {
		if (stopAfter >= 0 && k > stopAfter) || L.Poisoned {
			return
		}
		ev := &cs.Events[k]
		pre := c05PreOf(n.r)
		fault := faultOK && cs.Fault != nil && cs.Fault.At == k
		cls := c05Class(pre, ev, fault)
		where := fmt.Sprintf("voter %s, %s", c05PreString(pre), c05EvString(ev))
		setter := ev.Type == "setTerm" || ev.Type == "setVotedFor"
		panicked := false
		mk := func(point string) *c05Image {
			img := &c05Image{At: k, Point: point, Cls: cls, Where: where}
			if setter {
				img.Setter = true
				img.OldT, img.OldV = pre.Term, pre.VotedFor
				img.NewT, img.NewV = ev.Term, ev.Src
				if ev.Type == "setTerm" {
					img.NewV = 0
					if ev.Term == pre.Term {
						img.NewV = pre.VotedFor // setTerm(current term) changes nothing
					}
				}
				if panicked {
					img.NewT, img.NewV = img.OldT, img.OldV // refused: nothing may have changed
				}
			}
			return img
		}
		faultRun := fault
		if fault {
			n.faultArmed, n.faultTerm = true, ev.Term
			w.st.FaultRuns++
		}
		if take != nil {
			n.capture = func(p string) { take(mk(p)) }
		}
		o := n.exec(ev)
		if o.PanicMsg != "" {
			o.PanicMsg = strings.Replace(o.PanicMsg, n.dir, "<dir>", -1)
		}
		n.capture = nil
		if fault && n.faultDir == "" {
			fault = false // nothing tried to persist: the fault did not happen
			cls = c05Class(pre, ev, false)
		}
		n.clearFault()
		panicked = o.Panicked
		if n.logTouched {
			w.harnessErr("the log was written during %s: linked images are not faithful", c05EvString(ev))
		}
		memT, memV := n.r.term, n.r.votedFor
		dt, dv, derr := c05ReadDisk(n.dir)
		if derr == nil && !o.Panicked && !o.Skipped && (memT != dt || memV != dv) {
			w.st.Divergence++
		}
		w.account(cs, single, pre, ev, fault, faultRun, &o, dt, dv)
		if w.trace {
			s := fmt.Sprintf("event %d: %s on %s", k, c05EvString(ev), c05PreString(pre))
			if fault {
				s += " [rename of the term file fails]"
			}
			switch {
			case o.Skipped:
				s += " -> skipped (a leader does not time out)"
			case o.Replied:
				s += fmt.Sprintf(" -> reply{result:%s term:%d}", c05ResultName(o.Result), o.Term)
			default:
				s += " -> no reply"
			}
			if o.Panicked {
				s += " PANIC(" + o.PanicMsg + ")"
			}
			if len(o.Fired) > 0 {
				s += " points[" + strings.Join(o.Fired, ",") + "]"
			}
			if len(o.Wire) > 0 {
				s += fmt.Sprintf(" vote-requests-on-wire:%d", len(o.Wire))
			}
			s += fmt.Sprintf("; memory (%d,%s) state %c leader %s; directory %s", memT, c05Name(memV), byte(n.r.state), c05Name(n.r.leader), c05DiskString(dt, dv, derr))
			L.Trace = append(L.Trace, s)
		}
		L.judge(pre, ev, fault, &o, memT, memV, dt, dv, derr, func(key, desc string) { emit(k, key, desc) })
		if take != nil && !o.Skipped {
			take(mk("after"))
		}
		if o.Panicked {
			// the process is gone; it is started again on the same directory
			dir := n.dir
			n.close()
			n2, err := w.open(dir)
			w.st.Restarts++
			if err != nil {
				emit(k, "restart-fails:died,"+cls, fmt.Sprintf("%s: New fails after the handler panicked: %v", where, err))
				return
			}
			img := mk("died")
			if w.trace {
				L.Trace = append(L.Trace, fmt.Sprintf("process died; restart: node holds (%d,%s)", n2.r.term, c05Name(n2.r.votedFor)))
			}
			img.Point = "died"
			L.judgeReopen(img, n2.r, func(key, desc string) { emit(k, key, desc) })
			n = n2
		}
	}
}

// ---------------------------------------------------------------- violations

type c05Found struct {
	Key   string
	Desc  string
	Min   *c05Case
	Count int64
}

func c05OrdLess(a, b []int) bool {
	for i := 0; i < len(a) && i < len(b); i++ {
		if a[i] != b[i] {
			return a[i] < b[i]
		}
	}
	return len(a) < len(b)
}

func c05PathOrd(cs *c05Case) []int {
	ord := []int{0, len(cs.Events), 0, 0}
	if cs.Layer == "setter" {
		ord[0] = 1
	}
	if !cs.Voter.Reachable {
		ord[0] += 2
	}
	if cs.Crash != nil {
		ord[2] = 1 + cs.Crash.At*16 + c05PointRank(cs.Crash.Point)
	}
	if cs.Fault != nil {
		ord[3] = 1 + cs.Fault.At
	}
	return append(ord, cs.ord...)
}

type c05Findings map[string]*c05Found

func (f c05Findings) add(path *c05Case, key, desc string) {
	ord := c05PathOrd(path)
	x, ok := f[key]
	if !ok {
		c := path.clone()
		c.ord = ord
		f[key] = &c05Found{Key: key, Desc: desc, Min: c, Count: 1}
		return
	}
	x.Count++
	if c05OrdLess(ord, x.Min.ord) {
		c := path.clone()
		c.ord = ord
		x.Min, x.Desc = c, desc
	}
}

func (f c05Findings) merge(o c05Findings) {
	for k, v := range o {
		x, ok := f[k]
		if !ok {
			f[k] = v
			continue
		}
		x.Count += v.Count
		if c05OrdLess(v.Min.ord, x.Min.ord) {
			x.Min, x.Desc = v.Min, v.Desc
		}
	}
}

// reproduces: does exactly this path report key? (returns the description)
func (w *c05Worker) reproduces(cs *c05Case, key string) (bool, string) {
	ok, d := false, ""
	w.explore(cs, false, func(path *c05Case, k, desc string) {
		if k == key && !ok {
			ok, d = true, desc
		}
	})
	return ok, d
}

// shrink simplifies a witness while the same key is still reported.
func (w *c05Worker) shrink(cs *c05Case, key string) *c05Case {
	cur := cs.clone()
	fix := func(c *c05Case) *c05Case {
		c.Voter.Reachable = c05Reachable(c.Voter)
		return c
	}
	cands := func(c *c05Case) []*c05Case {
		var out []*c05Case
		for i := range c.Events {
			if len(c.Events) == 1 {
				break
			}
			if c.Crash != nil && c.Crash.At == i && c.Crash.Point != "before" {
				continue
			}
			if c.Fault != nil && c.Fault.At == i {
				continue
			}
			d := c.clone()
			d.Events = append(d.Events[:i:i], d.Events[i+1:]...)
			if d.Crash != nil && d.Crash.At > i {
				d.Crash.At--
			}
			if d.Fault != nil && d.Fault.At > i {
				d.Fault.At--
			}
			if d.Crash != nil && d.Crash.At >= len(d.Events) {
				continue
			}
			out = append(out, d)
		}
		if c.Crash != nil {
			d := c.clone()
			d.Crash = nil
			out = append(out, d)
		}
		if c.Fault != nil {
			d := c.clone()
			d.Fault = nil
			out = append(out, d)
		}
		if c.Voter.State != "F" {
			d := c.clone()
			d.Voter.State = "F"
			if d.Voter.Leader == c05Self {
				d.Voter.Leader = 0
			}
			out = append(out, d)
		}
		if c.Voter.Leader != 0 && c.Voter.State != "L" {
			d := c.clone()
			d.Voter.Leader = 0
			out = append(out, d)
		}
		if c.Voter.VotedFor != 0 && c.Voter.State == "F" {
			d := c.clone()
			d.Voter.VotedFor = 0
			out = append(out, d)
		}
		if c.Voter.LogIndex != 1 || c.Voter.LogTerm != 1 {
			d := c.clone()
			ok := true
			for i := range d.Events {
				if d.Events[i].Type != "vote" {
					continue
				}
				li := int64(d.Events[i].LastLogIndex) - int64(c.Voter.LogIndex) + 1
				lt := int64(d.Events[i].LastLogTerm) - int64(c.Voter.LogTerm) + 1
				if li < 0 || lt < 0 {
					ok = false
					break
				}
				d.Events[i].LastLogIndex, d.Events[i].LastLogTerm = uint64(li), uint64(lt)
			}
			d.Voter.LogIndex, d.Voter.LogTerm = 1, 1
			if ok {
				out = append(out, d)
			}
		}
		if c.Voter.Term > 2 {
			d := c.clone()
			d.Voter.Term--
			ok := true
			for i := range d.Events {
				if d.Events[i].Type == "election" {
					continue
				}
				if d.Events[i].Term == 0 {
					ok = false
					break
				}
				d.Events[i].Term--
			}
			if ok && d.Voter.LogTerm <= d.Voter.Term {
				out = append(out, d)
			}
		}
		for i := range c.Events {
			if c.Events[i].Transfer {
				d := c.clone()
				d.Events[i].Transfer = false
				out = append(out, d)
			}
			if c.Events[i].Type == "vote" && (c.Events[i].LastLogIndex != c.Voter.LogIndex || c.Events[i].LastLogTerm != c.Voter.LogTerm) {
				d := c.clone()
				d.Events[i].LastLogIndex, d.Events[i].LastLogTerm = c.Voter.LogIndex, c.Voter.LogTerm
				out = append(out, d)
			}
		}
		return out
	}
	for round := 0; round < 50; round++ {
		progressed := false
		for _, d := range cands(cur) {
			fix(d)
			if !cur.Voter.Reachable || d.Voter.Reachable { // never trade a reachable witness for an unreachable one
				if ok, _ := w.reproduces(d, key); ok {
					cur, progressed = d, true
					break
				}
			}
		}
		if !progressed {
			break
		}
	}
	for i := range cur.Events {
		cur.Events[i].Label = ""
	}
	return cur
}

// ---------------------------------------------------------------- driver

type c05Job struct {
	layer  string
	voter  int
	v      c05Voter
	prefix []int
	menu   []c05Spec
	faults bool
}

func (w *c05Worker) runJob(j *c05Job, found c05Findings) {
	emit := func(path *c05Case, key, desc string) { found.add(path, key, desc) }
	for last := range j.menu {
		idx := append(append([]int(nil), j.prefix...), last)
		cs := &c05Case{Layer: j.layer, Voter: j.v, ord: append([]int{j.voter}, idx...)}
		for _, i := range idx {
			cs.Events = append(cs.Events, j.menu[i].event(j.v))
		}
		w.st.Sequences++
		if len(idx) == 1 {
			w.st.Singles++
		}
		w.explore(cs, true, emit)
		if j.faults {
			for at := range cs.Events {
				fc := cs.clone()
				fc.Fault = &c05Fault{At: at, Kind: "rename-fails"}
				w.explore(fc, false, emit)
			}
		}
	}
}

func c05Jobs(layer string, voters []c05Voter, menu []c05Spec, n int, faults bool) []*c05Job {
	var out []*c05Job
	var rec func(vi int, prefix []int)
	rec = func(vi int, prefix []int) {
		if len(prefix) == n-1 {
			out = append(out, &c05Job{layer: layer, voter: vi, v: voters[vi], prefix: append([]int(nil), prefix...), menu: menu, faults: faults})
			return
		}
		for i := range menu {
			rec(vi, append(prefix, i))
		}
	}
	for vi := range voters {
		rec(vi, nil)
	}
	return out
}

type c05Phase struct {
	Name      string  `json:"name"`
	Layer     string  `json:"layer"`
	Voters    int     `json:"voter_states"`
	Menu      int     `json:"menu"`
	Length    int     `json:"length"`
	Sequences int64   `json:"sequences"`
	Jobs      int     `json:"jobs"`
	JobsDone  int64   `json:"jobs_done"`
	Complete  bool    `json:"complete"`
	WallS     float64 `json:"wall_s"`
	jobs      []*c05Job
}

func c05Check(args []string) int {
	if f := vkArg(args, "replay", ""); f != "" {
		return c05Replay(f)
	}
	tier := vkTier(args)
	thorough := tier == "thorough"
	run := vkNewRun("C05", tier, "exploration")
	start := time.Now()
	capS := vkArgInt(args, "cap-s", map[bool]int{false: 600, true: 1500}[thorough])
	deadline := start.Add(time.Duration(capS) * time.Second)
	workers := vkArgInt(args, "workers", 0)
	if workers <= 0 {
		workers = runtime.NumCPU()
		if workers > 16 {
			workers = 16
		}
	}

	root := vkScratch("c05")
	defer os.RemoveAll(root)
	c05TplRoot = root
	restore := c05InstallHooks()
	defer restore()
	if pf := vkArg(args, "cpuprofile", ""); pf != "" {
		if f, err := os.Create(pf); err == nil {
			_ = pprof.StartCPUProfile(f)
			defer pprof.StopCPUProfile()
		}
	}

	voters := c05Voters(thorough)
	sv := c05SetterVoters()
	phases := []*c05Phase{
		{Name: "singles", Layer: "vote", Voters: len(voters), Menu: len(c05SingleMenu()), Length: 1, jobs: c05Jobs("vote", voters, c05SingleMenu(), 1, true)},
		{Name: "setter-singles", Layer: "setter", Voters: len(sv), Menu: len(c05SetterMenu()), Length: 1, jobs: c05Jobs("setter", sv, c05SetterMenu(), 1, true)},
		{Name: "setter-pairs", Layer: "setter", Voters: len(sv), Menu: len(c05SetterMenu()), Length: 2, jobs: c05Jobs("setter", sv, c05SetterMenu(), 2, false)},
		{Name: "pairs", Layer: "vote", Voters: len(voters), Menu: len(c05PairMenu(thorough)), Length: 2, jobs: c05Jobs("vote", voters, c05PairMenu(thorough), 2, false)},
	}
	if thorough {
		phases = append(phases,
			&c05Phase{Name: "setter-triples", Layer: "setter", Voters: len(sv), Menu: len(c05SetterMenu()), Length: 3, jobs: c05Jobs("setter", sv, c05SetterMenu(), 3, false)},
			&c05Phase{Name: "triples", Layer: "vote", Voters: len(voters), Menu: len(c05TripleMenu()), Length: 3, jobs: c05Jobs("vote", voters, c05TripleMenu(), 3, false)})
	}

	total := &c05Stats{}
	total.init()
	found := c05Findings{}
	ws := make([]*c05Worker, workers)
	for i := range ws {
		ws[i] = &c05Worker{id: i, root: fmt.Sprintf("%s/w%d", root, i)}
		ws[i].st.init()
		if err := os.Mkdir(ws[i].root, 0700); err != nil {
			fmt.Println("C05: scratch:", err)
			return 2
		}
	}
	exhaustive := true
	for _, ph := range phases {
		pstart := time.Now()
		ph.Jobs = len(ph.jobs)
		ch := make(chan *c05Job, 64)
		var wg sync.WaitGroup
		var mu sync.Mutex
		seqBefore := int64(0)
		for _, w := range ws {
			seqBefore += w.st.Sequences
		}
		for _, w := range ws {
			wg.Add(1)
			go func(w *c05Worker) {
				defer wg.Done()
				local := c05Findings{}
				done := int64(0)
				for j := range ch {
					w.runJob(j, local)
					done++
				}
				mu.Lock()
				found.merge(local)
				ph.JobsDone += done
				mu.Unlock()
			}(w)
		}
		for _, j := range ph.jobs {
			if time.Now().After(deadline) {
				break
			}
			ch <- j
		}
		close(ch)
		wg.Wait()
		ph.jobs = nil
		ph.Complete = ph.JobsDone == int64(ph.Jobs)
		if !ph.Complete {
			exhaustive = false
		}
		seqAfter := int64(0)
		for _, w := range ws {
			seqAfter += w.st.Sequences
		}
		ph.Sequences = seqAfter - seqBefore
		ph.WallS = float64(int(time.Since(pstart).Seconds()*100)) / 100
		fmt.Printf("C05 %s: phase %-15s voters=%d menu=%d len=%d sequences=%d jobs=%d/%d %.1fs\n", tier, ph.Name, ph.Voters, ph.Menu, ph.Length, ph.Sequences, ph.JobsDone, ph.Jobs, ph.WallS)
	}
	for _, w := range ws {
		total.merge(&w.st)
	}

	// classify: reproduce, shrink, report
	sw := &c05Worker{id: 99, root: root + "/shrink"}
	sw.st.init()
	_ = os.Mkdir(sw.root, 0700)
	var keys []string
	for k := range found {
		keys = append(keys, k)
	}
	sort.Strings(keys)
	for _, k := range keys {
		f := found[k]
		rep := 0
		for i := 0; i < 5; i++ {
			if ok, _ := sw.reproduces(f.Min, k); ok {
				rep++
			}
		}
		min := f.Min
		desc := f.Desc
		if rep == 5 {
			min = sw.shrink(f.Min, k)
			if ok, d := sw.reproduces(min, k); ok {
				desc = d
			}
		}
		desc = fmt.Sprintf("%s [minimal witness: %s; reproduced %d/5; %d paths of this run report this key]", desc, c05CaseString(min), rep, f.Count)
		run.Violation(k, desc, min)
		for i := int64(1); i < f.Count && i < 1000000; i++ {
			run.Violation(k, "", nil)
		}
	}

	// samples: members of the enumerated product, written out with their trace
	samples := c05Samples(sw)

	nontrivial := len(total.Nontrivial)
	seqs := map[string]int64{}
	for _, ph := range phases {
		seqs[ph.Name] = ph.Sequences
	}
	run.Cov["evaluations"] = total.Events
	run.Cov["distinct_nontrivial"] = nontrivial
	run.Cov["distinct_trivial"] = len(total.Trivial)
	run.Cov["rule"] = "Enumerated: the full product voter state (term{2,3} x votedFor{0,A,B,self} x leader{0,A,B} x state{F,C,L}, consistent combinations, x last log shapes) x event " +
		"(vote request: term{t-1,t,t+1,t+2} x candidate{A,B} x log{behind-by-term,behind-by-index,equal,ahead-by-term,ahead-by-index} x transfer{0,1}; append request without entries: term x src; startElection x transfer) as singles, " +
		"then every ordered pair (thorough: also every ordered triple) from the reduced menus, each sequence once without crash and once per crash point that exists in it " +
		"(before the first event, at every verifPoint fired inside setVotedFor/setTerm/value.set, after every reply); singles also with the rename of the term file failing; plus the storage setters " +
		"(term{2,3} x vote x setTerm/setVotedFor with term{t-1..t+2} x candidate{0,A,B,self}) as singles, pairs (thorough: triples). evaluations = events delivered to the real handlers on all paths. " +
		"distinct_nontrivial = measured number of distinct (node state before the event [term,votedFor,leader,state,last log], event [all fields, fault flag], outcome [result code, panicked, (term,vote) in the directory afterwards]) triples " +
		"whose event was NOT rejected before any state is touched: vote results other than leaderKnown/staleTerm, append results other than staleTerm, started elections, setter calls whose arguments differ from the current value; " +
		"the rejected ones are counted in distinct_trivial."
	run.Cov["samples"] = samples
	run.Cov["exhaustive"] = exhaustive && len(total.Errors) == 0
	run.Cov["singles"] = total.Singles
	run.Cov["sequences"] = total.Sequences
	run.Cov["sequences_by_phase"] = seqs
	run.Cov["phases"] = phases
	run.Cov["fault_runs"] = total.FaultRuns
	run.Cov["crash_images_reopened"] = total.Restarts
	run.Cov["crash_images_by_point"] = total.PointHist
	run.Cov["crash_points_equivalent_to_previous_image"] = total.ImagesEquivalent
	run.Cov["node_starts"] = total.Boots
	run.Cov["result_code_histogram"] = total.Hist
	run.Cov["result_code_histogram_singles"] = total.HistSingles
	run.Cov["reference_disagreements"] = map[string]interface{}{
		"note":   "textbook RequestVote (no leader stickiness, no transfer flag) run alongside every vote request; disagreements on grant/refuse are notes, not verdicts (when a vote must be granted is liveness, C17)",
		"counts": total.RefDis,
	}
	run.Cov["handler_panics"] = total.Panics // assertion refusals of the setter layer and injected rename failures
	run.Cov["handler_panics_without_injected_fault_in_vote_layer"] = total.PanicsNoFault
	run.Cov["memory_disk_divergences_after_event"] = total.Divergence
	run.Cov["elections_started"] = total.Elections
	run.Cov["vote_requests_read_from_wire"] = total.WireObs
	run.Cov["events_skipped"] = total.Skipped
	run.Cov["voter_states"] = len(voters)
	unreach := 0
	for _, v := range voters {
		if !v.Reachable {
			unreach++
		}
	}
	run.Cov["voter_states_flagged_unreachable"] = unreach
	run.Cov["workers"] = workers
	run.Cov["time_cap_s"] = capS
	if len(total.Errors) > 0 {
		run.Cov["harness_errors"] = total.Errors
	}
	run.Assumptions = []string{
		"process-crash model of the property: completed file operations survive (a rename that returned is in the image even if syncDir has not run); power loss is not modelled here",
		"a crash image is a copy of the storage directory taken inside the verifPoint hook / between events; a restart is the real New (openStorage) on that copy; files are copied as hard links, which is faithful because value files are empty (the name is the value) and no event of these runs writes the log (checked: a log.* verifPoint on a node under test is a harness error)",
		"crash points inside one handler whose directory listing equals that of the previous point of the same event (same ledger: no reply has left) are the same restart computation; they are reopened once and counted in crash_points_equivalent_to_previous_image",
		"replies computed after a crash point inside the handler are treated as never sent; a reply is 'sent' once replyRPC has produced rpc.resp",
		"volatile voter state (state, leader) is set with the real setState/setLeader on a node returned by New (no Serve loop); persistent state comes from the real SetIdentity/bootstrap/appendEntry/setTerm/setVotedFor",
		"one crash per sequence; the injected storage fault is a failing rename (target name occupied), applied to single events only",
		"3 voters (self, A, B); the log does not change during a sequence (append requests carry no entries)",
	}
	if total.Events == 0 {
		fmt.Println("C05: nothing was executed")
		return 2
	}
	code := run.Finish()
	if len(total.Errors) > 0 {
		fmt.Println("C05: harness errors:", total.Errors[0])
		if code == 0 {
			code = 2
		}
	}
	return code
}

// ---------------------------------------------------------------- samples, replay

func c05Samples(w *c05Worker) []interface{} {
	v0 := c05Voter{Term: 2, State: "F", LogIndex: 3, LogTerm: 2, Reachable: true}
	vl := v0
	vl.Leader = c05A
	va := v0
	va.VotedFor = c05A
	vote := func(v c05Voter, dt int, src uint64, rel string, tr bool) c05Event {
		return c05Spec{"vote", dt, src, rel, tr}.event(v)
	}
	cases := []*c05Case{
		{Layer: "vote", Voter: v0, Events: []c05Event{vote(v0, 0, c05A, "equal", false)}},
		{Layer: "vote", Voter: vl, Events: []c05Event{vote(vl, 1, c05A, "equal", false)}},
		{Layer: "vote", Voter: v0, Events: []c05Event{vote(v0, 1, c05A, "equal", false), vote(v0, 1, c05B, "equal", false)}, Crash: &c05Crash{0, "after"}},
		{Layer: "vote", Voter: v0, Events: []c05Event{vote(v0, 1, c05A, "equal", false), vote(v0, 1, c05B, "equal", false)}, Crash: &c05Crash{0, "value.renamed"}},
		{Layer: "vote", Voter: v0, Events: []c05Event{vote(v0, 1, c05A, "equal", false), vote(v0, 0, c05B, "equal", true)}, Crash: &c05Crash{0, "vote.pre"}},
		{Layer: "vote", Voter: va, Events: []c05Event{c05Spec{Type: "election"}.event(va), vote(va, 1, c05B, "ahead-by-index", false)}, Crash: &c05Crash{0, "value.synced"}},
		{Layer: "vote", Voter: v0, Events: []c05Event{c05Spec{Type: "heartbeat", DTerm: 1, Src: c05A}.event(v0), vote(v0, 1, c05B, "equal", true)}, Crash: &c05Crash{0, "term.post"}},
		{Layer: "vote", Voter: v0, Events: []c05Event{vote(v0, 1, c05A, "equal", false)}, Fault: &c05Fault{0, "rename-fails"}},
		{Layer: "setter", Voter: c05Voter{Term: 3, VotedFor: c05A, State: "F", LogIndex: 1, LogTerm: 1, Reachable: true},
			Events: []c05Event{c05Spec{Type: "setTerm", DTerm: -1}.event(c05Voter{Term: 3})}},
	}
	var out []interface{}
	w.trace = true
	for _, cs := range cases {
		var viol []string
		traces := w.explore(cs, false, func(path *c05Case, key, desc string) { viol = append(viol, key) })
		var tr []string
		if len(traces) > 0 {
			tr = traces[len(traces)-1]
		}
		out = append(out, map[string]interface{}{"case": cs, "trace": tr, "violations": viol})
	}
	w.trace = false
	return out
}

func c05Replay(file string) int {
	b, err := ioutil.ReadFile(file)
	if err != nil {
		fmt.Println("C05 replay:", err)
		return 2
	}
	var art struct {
		Key    string          `json:"key"`
		Replay json.RawMessage `json:"replay"`
	}
	cs := &c05Case{}
	if err := json.Unmarshal(b, &art); err == nil && len(art.Replay) > 0 && string(art.Replay) != "null" {
		err = json.Unmarshal(art.Replay, cs)
		if err != nil {
			fmt.Println("C05 replay:", err)
			return 2
		}
	} else if err := json.Unmarshal(b, cs); err != nil {
		fmt.Println("C05 replay:", err)
		return 2
	}
	if cs.Layer == "" {
		cs.Layer = "vote"
	}
	root := vkScratch("c05r")
	defer os.RemoveAll(root)
	c05TplRoot = root
	restore := c05InstallHooks()
	defer restore()
	w := &c05Worker{root: root + "/w", trace: true}
	w.st.init()
	_ = os.Mkdir(w.root, 0700)
	fmt.Println("C05 replay:", c05CaseString(cs))
	type v struct{ key, desc string }
	var viol []v
	traces := w.explore(cs, false, func(path *c05Case, key, desc string) { viol = append(viol, v{key, desc}) })
	if len(traces) > 0 {
		for _, l := range traces[len(traces)-1] {
			fmt.Println("  ", l)
		}
	}
	for _, e := range w.st.Errors {
		fmt.Println("  harness error:", e)
	}
	hit := false
	for _, x := range viol {
		fmt.Printf("VIOLATION property=C05 key=%s: %s\n", x.key, x.desc)
		if art.Key == "" || x.key == art.Key {
			hit = true
		}
	}
	if len(w.st.Errors) > 0 {
		return 2
	}
	if hit {
		if art.Key != "" {
			fmt.Println("C05 replay: reproduced key", art.Key)
		}
		return 1
	}
	if art.Key != "" {
		fmt.Println("C05 replay: key", art.Key, "NOT reproduced on this build")
	} else {
		fmt.Println("C05 replay: no violation on this path")
	}
	return 0
}
