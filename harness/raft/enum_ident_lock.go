//go:build verif
// +build verif

package raft

// C20 part (iii): storage exclusivity and identity immutability.
//
// (1) sequences: every sequence (length <= 4 quick, <= 5 thorough) over
//     {A.lockDir, A.unlockDir, B.lockDir, B.unlockDir, A.SetIdentity(x),
//      B.SetIdentity(y), A.New+Serve, B.New+Serve, crash-A}, x,y in
//     {(1,1),(1,2),(2,1)}, on one directory, with the REAL functions, against
//     the reference model c20LockModel.
// (2) interleavings: the syscall sequence of lockDir/unlockDir (and of
//     SetIdentity's critical section) as atomic steps on the real file system,
//     all interleavings of two contenders (thorough: three, with private steps
//     fused), cooperative scheduler, stateless depth-first enumeration.

import (
	"bufio"
	"context"
	"crypto/sha256"
	"encoding/hex"
	"encoding/json"
	"fmt"
	"io"
	"io/ioutil"
	"os"
	"os/exec"
	"path/filepath"
	"sort"
	"strings"
	"sync/atomic"
	"syscall"
	"time"
)

func init() {
	vkCommands["c20crashchild"] = c20CrashChild
	vkCommands["c20seqworker"] = c20SeqWorker
}

// ================================================================ (1) sequences

var c20SeqIdents = []c20Ident{{1, 1}, {1, 2}, {2, 1}}

type c20Op struct {
	Kind string   `json:"op"`  // lock unlock setid serve crash
	Who  string   `json:"who"` // A | B
	ID   c20Ident `json:"id,omitempty"`
}

func (o c20Op) String() string {
	if o.Kind == "setid" {
		return fmt.Sprintf("%s.SetIdentity%v", o.Who, o.ID)
	}
	return o.Who + "." + o.Kind
}

func c20Alphabet() []c20Op {
	ops := []c20Op{{Kind: "lock", Who: "A"}, {Kind: "unlock", Who: "A"}, {Kind: "lock", Who: "B"}, {Kind: "unlock", Who: "B"}}
	for _, w := range []string{"A", "B"} {
		for _, id := range c20SeqIdents {
			ops = append(ops, c20Op{Kind: "setid", Who: w, ID: id})
		}
	}
	return append(ops, c20Op{Kind: "serve", Who: "A"}, c20Op{Kind: "serve", Who: "B"}, c20Op{Kind: "crash", Who: "A"})
}

// c20LockModel is the reference: who holds the lock file, which identity is stored.
type c20LockModel struct {
	holder string // "" | "A" | "B" | "orphan"
	how    string // manual | serving
	stored c20Ident
}

func (m *c20LockModel) holderRel(who string) string {
	switch {
	case m.holder == "":
		return "free"
	case m.holder == "orphan":
		return "orphan"
	case m.holder == who:
		return "self-" + m.how
	}
	return "other-" + m.how
}

func (m *c20LockModel) idRel(id c20Ident) string {
	switch {
	case m.stored == (c20Ident{}):
		return "unset"
	case m.stored == id:
		return "same"
	}
	return "different"
}

func c20ErrName(err error) string {
	switch err {
	case nil:
		return "nil"
	case ErrLockExists:
		return "ErrLockExists"
	case ErrIdentityAlreadySet:
		return "ErrIdentityAlreadySet"
	case ErrIdentityNotSet:
		return "ErrIdentityNotSet"
	}
	return "other:" + err.Error()
}

type c20SeqResult struct {
	Seq     []c20Op  `json:"seq"`
	Steps   []string `json:"steps"`
	Fails   []string `json:"fails,omitempty"`
	Harness string   `json:"harness_error,omitempty"`
	Skipped bool     `json:"skipped,omitempty"`
	classes []string
	swallow int
}

func (r *c20SeqResult) fail(key, format string, a ...interface{}) {
	r.Fails = append(r.Fails, key+"\x00"+fmt.Sprintf(format, a...)+fmt.Sprintf(" [sequence: %v]", r.Seq))
}

type c20Inst struct {
	r       *Raft
	lr      *c20Listener
	serveCh chan error
}

// c20DirFacts reads what is on disk: lock file present, stored identity, leftovers.
func c20DirFacts(dir string) (lock bool, id c20Ident, temps int, err error) {
	names, err := ioutil.ReadDir(dir)
	if err != nil {
		return
	}
	for _, fi := range names {
		n := fi.Name()
		switch {
		case n == "lock":
			lock = true
		case strings.HasPrefix(n, "lock") && strings.HasSuffix(n, ".tmp"):
			temps++
		case strings.HasSuffix(n, ".id"):
			var a, b uint64
			if _, e := fmt.Sscanf(strings.TrimSuffix(n, ".id"), "%d-%d", &a, &b); e == nil {
				id = c20Ident{a, b}
			}
		}
	}
	return
}

func c20RunSeq(seq []c20Op) *c20SeqResult {
	res := &c20SeqResult{Seq: seq}
	// operations the library never performs make the sequence redundant
	{
		m := c20LockModel{}
		for _, op := range seq {
			switch op.Kind {
			case "unlock":
				if !(m.holder == op.Who && m.how == "manual") {
					res.Skipped = true
					return res
				}
				m.holder, m.how = "", ""
			case "crash":
				if m.holder != op.Who {
					res.Skipped = true
					return res
				}
				m.holder, m.how = "orphan", ""
			case "lock":
				if m.holder == "" {
					m.holder, m.how = op.Who, "manual"
				}
			case "setid":
				if m.holder == "" && m.stored == (c20Ident{}) {
					m.stored = op.ID
				}
			case "serve":
				if m.holder == "" && m.stored != (c20Ident{}) {
					m.holder, m.how = op.Who, "serving"
				}
			}
		}
	}
	dir := vkScratch("c20seq")
	defer c20RemoveAll(dir)
	nw := c20NewNet()
	opt := c20Options(time.Hour)
	m := c20LockModel{}
	insts := map[string][]*c20Inst{}
	var failedOpen []*Raft
	stopInst := func(in *c20Inst) error {
		ctx, cancel := context.WithTimeout(context.Background(), 20*time.Second)
		defer cancel()
		if err := in.r.Shutdown(ctx); err != nil {
			return err
		}
		<-in.serveCh
		_ = in.lr.Close()
		return nil
	}
	defer func() {
		for _, l := range insts {
			for _, in := range l {
				if err := stopInst(in); err != nil && res.Harness == "" {
					res.Harness = "stop: " + err.Error()
				}
			}
		}
		for _, r := range failedOpen {
			_ = r.storage.log.Close()
		}
	}()
	for i, op := range seq {
		pre := m
		var got error
		class := ""
		switch op.Kind {
		case "lock":
			class = "lock holder=" + m.holderRel(op.Who)
			got = lockDir(dir)
			want := "ErrLockExists"
			if m.holder == "" {
				want = "nil"
			}
			if c20ErrName(got) != want {
				if got == nil {
					res.fail("lock-not-exclusive:lockDir,holder="+pre.holderRel(op.Who), "step %d %v returned nil while the directory is held (%s)", i, op, pre.holderRel(op.Who))
				} else {
					res.fail("lock-wrong-error:lockDir", "step %d %v returned %v, want %s", i, op, got, want)
				}
			}
			if got == nil && m.holder == "" {
				m.holder, m.how = op.Who, "manual"
			}
		case "unlock":
			class = "unlock holder=self-manual"
			got = unlockDir(dir)
			if got != nil {
				res.fail("lock-wrong-error:unlockDir", "step %d %v returned %v", i, op, got)
			}
			m.holder, m.how = "", ""
		case "setid":
			class = "setid holder=" + m.holderRel(op.Who) + " stored=" + m.idRel(op.ID)
			got = SetIdentity(dir, op.ID.CID, op.ID.NID)
			switch {
			case m.holder != "":
				if got != ErrLockExists {
					if got == nil {
						res.fail("lock-not-exclusive:SetIdentity,holder="+pre.holderRel(op.Who), "step %d %v returned nil on a directory in use (%s)", i, op, pre.holderRel(op.Who))
					} else {
						res.fail("lock-wrong-error:SetIdentity", "step %d %v returned %v, want ErrLockExists", i, op, got)
					}
				}
			case m.stored == (c20Ident{}):
				if got != nil {
					res.fail("setidentity-failed:first", "step %d %v returned %v on a free directory without identity", i, op, got)
				} else {
					m.stored = op.ID
				}
			case m.stored == op.ID:
				if got != nil {
					res.fail("setidentity-failed:same", "step %d %v returned %v although the same identity is stored", i, op, got)
				}
			default:
				// documented: ErrIdentityAlreadySet.  The deferred unlock in SetIdentity
				// overwrites the error with unlockDir's result; the statement of C20
				// only demands that the identity cannot be changed (checked below).
				if got == nil {
					res.swallow++
				} else if got != ErrIdentityAlreadySet {
					res.fail("lock-wrong-error:SetIdentity-different", "step %d %v returned %v, want ErrIdentityAlreadySet", i, op, got)
				}
			}
		case "serve":
			class = "serve holder=" + m.holderRel(op.Who) + " stored=" + map[bool]string{true: "unset", false: "set"}[m.stored == (c20Ident{})]
			r, err := New(opt, &c20FSM{}, dir)
			got = err
			if m.stored == (c20Ident{}) {
				if err != ErrIdentityNotSet {
					res.fail("new-without-identity", "step %d %v: New returned %v on a directory without identity, want ErrIdentityNotSet", i, op, err)
					if r != nil {
						failedOpen = append(failedOpen, r)
					}
				}
				break
			}
			if err != nil {
				res.fail("new-failed", "step %d %v: New returned %v, stored identity %v", i, op, err, m.stored)
				break
			}
			if (c20Ident{r.cid, r.nid}) != m.stored {
				res.fail("identity-changed:New-reads-other", "step %d %v: New read identity (%d,%d), the first identity set is %v", i, op, r.cid, r.nid, m.stored)
			}
			in := &c20Inst{r: r, lr: nw.listen(fmt.Sprintf("%s%d", op.Who, i), op.Who), serveCh: make(chan error, 1)}
			r.dialFn = nw.dialer(op.Who)
			go func() { in.serveCh <- r.Serve(in.lr) }()
			t := inspect{task: newTask(), fn: func(*Raft) {}}
			timer := time.NewTimer(20 * time.Second)
			select {
			case r.taskCh <- t:
				<-t.Done()
				got = nil
			case got = <-in.serveCh:
			case <-timer.C:
				res.Harness = fmt.Sprintf("step %d %v: Serve neither started nor returned", i, op)
				return res
			}
			timer.Stop()
			if got == nil {
				insts[op.Who] = append(insts[op.Who], in)
				if m.holder != "" {
					res.fail("lock-not-exclusive:Serve,holder="+pre.holderRel(op.Who), "step %d %v: Serve is running on a directory in use (%s)", i, op, pre.holderRel(op.Who))
				} else {
					m.holder, m.how = op.Who, "serving"
				}
			} else {
				_ = in.lr.Close()
				failedOpen = append(failedOpen, r)
				if m.holder == "" {
					res.fail("serve-failed", "step %d %v: Serve returned %v on a free directory", i, op, got)
				} else if got != ErrLockExists {
					res.fail("lock-wrong-error:Serve", "step %d %v: Serve returned %v, want ErrLockExists", i, op, got)
				}
			}
		case "crash":
			class = "crash holder=" + m.holderRel(op.Who)
			if m.how == "serving" {
				// simulated: graceful shutdown, then the lock file exactly as lockDir leaves it
				for _, in := range insts[op.Who] {
					if err := stopInst(in); err != nil {
						res.Harness = "crash: " + err.Error()
						return res
					}
				}
				insts[op.Who] = nil
				if err := lockDir(dir); err != nil {
					res.Harness = "crash: re-creating the lock: " + err.Error()
					return res
				}
			}
			m.holder, m.how = "orphan", ""
		}
		res.Steps = append(res.Steps, fmt.Sprintf("%v -> %s", op, c20ErrName(got)))
		out := c20ErrName(got)
		if strings.HasPrefix(out, "other:") {
			out = "other"
		}
		res.classes = append(res.classes, class+" => "+out)

		// invariants after every operation
		lock, id, temps, err := c20DirFacts(dir)
		if err != nil {
			res.Harness = err.Error()
			return res
		}
		if lock != (m.holder != "") {
			res.fail("lock-file-state:"+op.Kind, "after step %d %v the lock file exists=%v, model holder=%q", i, op, lock, m.holder)
		}
		if id != m.stored {
			key := "identity-changed:" + op.Kind
			if pre.stored == (c20Ident{}) {
				key = "identity-wrongly-stored:" + op.Kind
			}
			res.fail(key, "after step %d %v the stored identity is %v, want %v (first identity set)", i, op, id, m.stored)
			m.stored = id
		}
		if temps != 0 {
			res.fail("lock-temp-left:"+op.Kind, "after step %d %v %d lock*.tmp files are left", i, op, temps)
		}
		live := 0
		for _, l := range insts {
			live += len(l)
		}
		if m.how == "manual" {
			live++
		}
		if live > 1 {
			res.fail("two-holders:"+op.Kind, "after step %d %v there are %d live holders of the directory", i, op, live)
		}
	}
	return res
}

// c20NumSeqs: number of sequences of length 1..maxLen over the alphabet.
func c20NumSeqs(maxLen int) int {
	n, p := 0, 1
	for l := 1; l <= maxLen; l++ {
		p *= len(c20Alphabet())
		n += p
	}
	return n
}

// c20SeqByIndex: the i-th sequence, ordered by length, then lexicographically.
func c20SeqByIndex(i, maxLen int) []c20Op {
	alpha := c20Alphabet()
	p := 1
	for l := 1; l <= maxLen; l++ {
		p *= len(alpha)
		if i < p {
			seq := make([]c20Op, l)
			for k := l - 1; k >= 0; k-- {
				seq[k] = alpha[i%len(alpha)]
				i /= len(alpha)
			}
			return seq
		}
		i -= p
	}
	return nil
}

type c20SeqFail struct {
	Key  string  `json:"key"`
	Desc string  `json:"desc"`
	Seq  []c20Op `json:"seq"`
}

type c20SeqSummary struct {
	Executed  int            `json:"executed"`
	Skipped   int            `json:"skipped"`
	Swallowed int            `json:"swallowed"`
	Classes   map[string]int `json:"classes"`
	Fails     []c20SeqFail   `json:"fails,omitempty"`
	Harness   []string       `json:"harness,omitempty"`
	Samples   [][]string     `json:"samples,omitempty"`
	Error     string         `json:"error,omitempty"`
}

func c20SeqChunk(from, to, maxLen int) *c20SeqSummary {
	sm := &c20SeqSummary{Classes: map[string]int{}}
	seenFail := map[string]bool{}
	for i := from; i < to; i++ {
		seq := c20SeqByIndex(i, maxLen)
		r := c20RunSeq(seq)
		if r.Skipped {
			sm.Skipped++
			continue
		}
		sm.Executed++
		if r.Harness != "" {
			sm.Harness = append(sm.Harness, fmt.Sprintf("%v: %s", seq, r.Harness))
			continue
		}
		sm.Swallowed += r.swallow
		for _, c := range r.classes {
			sm.Classes[c]++
		}
		if sm.Executed%1499 == 1 && len(sm.Samples) < 2 {
			sm.Samples = append(sm.Samples, r.Steps)
		}
		for _, f := range r.Fails {
			kv := strings.SplitN(f, "\x00", 2)
			if !seenFail[kv[0]] {
				seenFail[kv[0]] = true
				sm.Fails = append(sm.Fails, c20SeqFail{kv[0], kv[1], seq})
			}
		}
	}
	return sm
}

// c20SeqWorker: `vraft c20seqworker <from> <to> <maxLen>` prints the summary as JSON.
func c20SeqWorker(args []string) int {
	var from, to, maxLen int
	if len(args) != 3 {
		return 2
	}
	fmt.Sscan(args[0], &from)
	fmt.Sscan(args[1], &to)
	fmt.Sscan(args[2], &maxLen)
	b, _ := json.Marshal(c20SeqChunk(from, to, maxLen))
	os.Stdout.Write(b)
	return 0
}

func c20SeqChunkInChild(from, to, maxLen int) *c20SeqSummary {
	out, crash, err := c20Child(nil, "c20seqworker", fmt.Sprint(from), fmt.Sprint(to), fmt.Sprint(maxLen))
	if err != nil {
		return &c20SeqSummary{Error: crash}
	}
	sm := &c20SeqSummary{}
	if err := json.Unmarshal(out, sm); err != nil {
		return &c20SeqSummary{Error: fmt.Sprintf("child failed: worker %d..%d: %v", from, to, err)}
	}
	return sm
}

// ================================================================ (2) step model of lockDir

// c20LockSourceHash is the sha256 of the text of lockDir+unlockDir in
// /repo/util.go that the steps below were written against.
const c20LockSourceHash = "59359abfe69f6627929c5ae7f71cce8391de652e27354c30d7d0392a71ae9b76"

func c20LockSource() (text string, hash string, err error) {
	repo := os.Getenv("VERIF_REPO")
	if repo == "" {
		repo = "/repo"
	}
	b, err := ioutil.ReadFile(filepath.Join(repo, "util.go"))
	if err != nil {
		return "", "", err
	}
	s := string(b)
	i := strings.Index(s, "func lockDir(")
	j := strings.Index(s, "func unlockDir(")
	if i < 0 || j < i {
		return "", "", fmt.Errorf("lockDir/unlockDir not found in util.go")
	}
	k := strings.Index(s[j:], "\n}\n")
	if k < 0 {
		return "", "", fmt.Errorf("end of unlockDir not found")
	}
	text = s[i : j+k+3]
	h := sha256.Sum256([]byte(text))
	return text, hex.EncodeToString(h[:]), nil
}

const (
	c20VarReal           = 0
	c20VarIgnoreExistAll = 1 // self-test: Link's EEXIST ignored and SameFile check skipped -> must be caught
	c20VarIgnoreExist    = 2 // self-test: Link's EEXIST ignored, SameFile kept -> safe (what SameFile is for)
)

// c20Cont is one contender executing lockDir (and what follows) step by step.
//
// util.go lockDir, line by line                                   step (pc)
//
//	dir, err := filepath.Abs(dir)                                  0 (pure, with the next call)
//	tempFile, err := ioutil.TempFile(dir, "lock*.tmp")             0
//	defer { tempFile.Close(); os.Remove(tempFile.Name()) }         5, 6 (run on every return after step 0)
//	io.WriteString(tempFile, fmt.Sprintf("%d\n", os.Getpid()))     1
//	lockFile := filepath.Join(dir, "lock")                         2 (pure)
//	os.Link(tempFile.Name(), lockFile)  IsExist -> ErrLockExists   2
//	tempInfo, err := os.Lstat(tempFile.Name())                     3
//	lockInfo, err := os.Lstat(lockFile)                            4
//	if !os.SameFile(tempInfo, lockInfo) -> ErrLockExists           4 (pure, with the previous call)
//	return nil                                                     6 (the caller holds the directory from here)
//
// storage.go SetIdentity critical section (role setID)
//
//	val, err := openValue(storageDir, ".id")                       7 (real openValue)
//	compare / ErrIdentityAlreadySet / val.set(cid, nid)            8 (real value.set)
//
// util.go unlockDir
//
//	os.RemoveAll(filepath.Join(dir, "lock"))                       9 (the caller stops holding before the call)
type c20Cont struct {
	name    string
	dir     string
	variant int
	unlock  bool      // calls unlockDir after holding
	setID   *c20Ident // SetIdentity critical section while holding
	crashAt int       // dies after this many steps (0 = never)

	pc       int
	executed int
	done     bool
	crashed  bool
	holder   bool
	result   error
	returned bool
	csErr    error
	tempFile *os.File
	tempInfo os.FileInfo
	lockFile string
	val      *value
	linked   bool
}

func (c *c20Cont) runnable() bool { return !c.done && !c.crashed }

// visible tells whether the step at pc touches shared state or changes who holds.
func c20Visible(pc int) bool {
	switch pc {
	case 0, 1, 3, 5:
		return false
	}
	return true
}

// step executes exactly one atomic step and returns a short trace token.
func (c *c20Cont) step() string {
	pc := c.pc
	tok := ""
	fail := func(err error, to int) {
		c.result = err
		c.pc = to
	}
	switch pc {
	case 0:
		dir, err := filepath.Abs(c.dir)
		if err != nil {
			c.result, c.done, c.returned = fmt.Errorf("raft.lockDir: %v", err), true, true
			break
		}
		c.dir = dir
		tempFile, err := ioutil.TempFile(dir, "lock*.tmp")
		if err != nil {
			c.result, c.done, c.returned = fmt.Errorf("raft.lockDir: %v", err), true, true
			break
		}
		c.tempFile = tempFile
		c.pc = 1
	case 1:
		if _, err := io.WriteString(c.tempFile, fmt.Sprintf("%d\n", os.Getpid())); err != nil {
			fail(fmt.Errorf("raft.lockDir: %v", err), 5)
			break
		}
		c.pc = 2
	case 2:
		c.lockFile = filepath.Join(c.dir, "lock")
		if err := os.Link(c.tempFile.Name(), c.lockFile); err != nil {
			if os.IsExist(err) {
				tok = "exists"
				if c.variant == c20VarIgnoreExistAll || c.variant == c20VarIgnoreExist {
					c.pc = 3
					break
				}
				fail(ErrLockExists, 5)
				break
			}
			fail(fmt.Errorf("raft.lockDir: %v", err), 5)
			break
		}
		tok = "linked"
		c.linked = true
		c.pc = 3
	case 3:
		tempInfo, err := os.Lstat(c.tempFile.Name())
		if err != nil {
			fail(fmt.Errorf("raft.lockDir: %v", err), 5)
			break
		}
		c.tempInfo = tempInfo
		c.pc = 4
	case 4:
		lockInfo, err := os.Lstat(c.lockFile)
		if err != nil {
			tok = "nolock"
			fail(fmt.Errorf("raft.lockDir: %v", err), 5)
			break
		}
		if c.variant != c20VarIgnoreExistAll && !os.SameFile(c.tempInfo, lockInfo) {
			tok = "differs"
			fail(ErrLockExists, 5)
			break
		}
		tok = "same"
		c.pc = 5
	case 5:
		_ = c.tempFile.Close()
		c.pc = 6
	case 6:
		_ = os.Remove(c.tempFile.Name())
		c.returned = true
		tok = c20ErrName(c.result)
		if c.result != nil {
			c.done = true
			break
		}
		c.holder = true
		switch {
		case c.setID != nil:
			c.pc = 7
		case c.unlock:
			c.pc = 9
		default:
			c.done = true
		}
	case 7:
		val, err := openValue(c.dir, ".id")
		if err != nil {
			c.csErr = err
			c.pc = 9
			break
		}
		c.val = val
		tok = fmt.Sprintf("read%d-%d", val.v1, val.v2)
		c.pc = 8
	case 8:
		val := c.val
		switch {
		case c.setID.CID == val.v1 && c.setID.NID == val.v2:
			tok = "same"
		case val.v1 != 0 && val.v2 != 0:
			c.csErr = ErrIdentityAlreadySet
			tok = "already"
		default:
			c.csErr = val.set(c.setID.CID, c.setID.NID)
			tok = "set:" + c20ErrName(c.csErr)
		}
		c.pc = 9
	case 9:
		c.holder = false
		_ = os.RemoveAll(filepath.Join(c.dir, "lock"))
		c.done = true
	}
	c.executed++
	if c.crashAt > 0 && c.executed >= c.crashAt && !c.done {
		c.crashed = true
		c.holder = false
		if c.tempFile != nil {
			_ = c.tempFile.Close() // the OS closes a dead process's descriptors
		}
		tok += "+crash"
	}
	if tok == "" {
		return ""
	}
	return fmt.Sprintf("%s%d:%s", c.name, pc, tok)
}

// c20Role describes a contender's program.
type c20Role struct {
	Name    string    `json:"role"`
	Unlock  bool      `json:"unlock,omitempty"`
	SetID   *c20Ident `json:"set_id,omitempty"`
	CrashAt int       `json:"crash_at,omitempty"`
}

func c20Roles() []c20Role {
	roles := []c20Role{{Name: "hold"}, {Name: "lock+unlock", Unlock: true}}
	for k := 1; k <= 6; k++ {
		roles = append(roles, c20Role{Name: fmt.Sprintf("crash@%d", k), CrashAt: k})
	}
	return roles
}

type c20ILCase struct {
	Roles   []c20Role `json:"roles"`
	Variant int       `json:"variant"`
	Fused   bool      `json:"fused"`
	Preset  *c20Ident `json:"preset_identity,omitempty"`
}

type c20ILStats struct {
	leaves    int64
	steps     int64
	outcomes  map[string]int
	traces    map[string]struct{}
	fails     map[string]string // key -> desc
	failSched map[string][]int
}

// c20RunSchedule executes one complete interleaving: sched[i] is the index
// (among the currently runnable contenders, in name order) chosen at choice
// point i; beyond len(sched) the first runnable contender runs.  It returns
// the number of alternatives at every choice point.
func c20RunSchedule(cs c20ILCase, dir string, sched []int, keepTrace bool) (alts []int, trace []string, outcome string, fails map[string]string) {
	conts := make([]*c20Cont, len(cs.Roles))
	for i, r := range cs.Roles {
		conts[i] = &c20Cont{name: string(rune('A' + i)), dir: dir, variant: cs.Variant, unlock: r.Unlock, setID: r.SetID, crashAt: r.CrashAt}
	}
	if cs.Preset != nil {
		_ = ioutil.WriteFile(valueFile(dir, ".id", cs.Preset.CID, cs.Preset.NID), nil, 0600)
	}
	addFail := func(key, desc string) {
		if fails == nil {
			fails = map[string]string{}
		}
		if _, ok := fails[key]; !ok {
			fails[key] = desc
		}
	}
	firstSet := c20Ident{}
	if cs.Preset != nil {
		firstSet = *cs.Preset
	}
	for point := 0; ; point++ {
		var run []*c20Cont
		for _, c := range conts {
			if c.runnable() {
				run = append(run, c)
			}
		}
		if len(run) == 0 {
			break
		}
		choice := 0
		if point < len(sched) {
			choice = sched[point]
		}
		alts = append(alts, len(run))
		c := run[choice]
		for {
			pc := c.pc
			tok := c.step()
			if tok != "" && keepTrace {
				trace = append(trace, tok)
			}
			// oracle: never two holders
			h := 0
			names := ""
			for _, x := range conts {
				if x.holder {
					h++
					names += x.name
				}
			}
			if h > 1 {
				addFail("two-holders:interleaving,"+c20RoleNames(cs.Roles), fmt.Sprintf("contenders %s hold the directory at the same time (after %s step %d)", names, c.name, pc))
			}
			if c.setID != nil && pc == 8 {
				_, id, _, _ := c20DirFacts(dir)
				if firstSet == (c20Ident{}) {
					firstSet = id
				} else if id != firstSet {
					addFail("identity-changed:interleaving", fmt.Sprintf("stored identity changed from %v to %v by %s", firstSet, id, c.name))
				}
			}
			if !cs.Fused || !c.runnable() || c20Visible(pc) {
				break
			}
		}
	}
	// final oracles
	var parts []string
	crashedHolding := false
	winners := 0
	for _, c := range conts {
		st := "-"
		switch {
		case c.crashed:
			st = "crashed"
			if c.linked {
				crashedHolding = true
			}
		case c.returned:
			st = c20ErrName(c.result)
			if c.result == nil {
				winners++
			} else if c.result != ErrLockExists {
				addFail("lock-wrong-error:interleaving", fmt.Sprintf("%s's lockDir returned %v", c.name, c.result))
				st = "other"
			}
			if c.setID != nil && c.result == nil {
				st += "/" + c20ErrName(c.csErr)
			}
		}
		parts = append(parts, c.name+"="+st)
	}
	lock, id, temps, _ := c20DirFacts(dir)
	live := false
	for _, c := range conts {
		if c.holder {
			live = true
		}
	}
	if lock && !live && !crashedHolding {
		addFail("stale-lock-without-crash:interleaving", "the lock file is left although nobody holds the directory and nobody crashed after linking it")
	}
	if !lock && live {
		addFail("holder-without-lock-file:interleaving", "a contender holds the directory but the lock file is gone")
	}
	crashes := 0
	for _, c := range conts {
		if c.crashed {
			crashes++
		}
	}
	if winners == 0 && crashes == 0 {
		addFail("nobody-wins:interleaving", "no contender acquired a free directory")
	}
	if temps > crashes {
		addFail("lock-temp-left:interleaving", fmt.Sprintf("%d temp files left, %d crashed contenders", temps, crashes))
	}
	outcome = strings.Join(parts, " ") + fmt.Sprintf(" lock=%v", lock)
	if id != (c20Ident{}) || cs.Preset != nil {
		outcome += " id=" + id.String()
	}
	// clean the directory for the next schedule
	if des, err := ioutil.ReadDir(dir); err == nil {
		for _, de := range des {
			_ = os.RemoveAll(filepath.Join(dir, de.Name()))
		}
	}
	return alts, trace, outcome, fails
}

func c20RoleNames(roles []c20Role) string {
	var n []string
	for _, r := range roles {
		s := r.Name
		if strings.HasPrefix(s, "crash@") {
			s = "crash"
		}
		n = append(n, s)
	}
	sort.Strings(n)
	return strings.Join(n, "+")
}

// c20ExploreIL enumerates every interleaving of the case (stateless DFS).
func c20ExploreIL(cs c20ILCase, dir string, wantTraces bool) *c20ILStats {
	return c20ExploreILFrom(cs, dir, wantTraces, nil)
}

// c20ILPrefixes lists the schedule prefixes of the given depth (complete
// schedules shorter than depth are listed as they are); the subtrees below
// them partition the interleavings.
func c20ILPrefixes(cs c20ILCase, dir string, depth int) [][]int {
	cur := [][]int{nil}
	for level := 0; level < depth; level++ {
		var next [][]int
		for _, p := range cur {
			if len(p) < level {
				next = append(next, p) // already complete
				continue
			}
			alts, _, _, _ := c20RunSchedule(cs, dir, p, false)
			if len(alts) <= level {
				next = append(next, p)
				continue
			}
			for a := 0; a < alts[level]; a++ {
				next = append(next, append(append([]int(nil), p...), a))
			}
		}
		cur = next
	}
	return cur
}

// time cap for the large unreduced exploration of the thorough tier
var c20ILDeadline, c20ILExpired int64

func c20NewILStats() *c20ILStats {
	return &c20ILStats{outcomes: map[string]int{}, traces: map[string]struct{}{}, fails: map[string]string{}, failSched: map[string][]int{}}
}

func (st *c20ILStats) merge(o *c20ILStats) {
	st.leaves += o.leaves
	st.steps += o.steps
	for k, v := range o.outcomes {
		st.outcomes[k] += v
	}
	for k, v := range o.fails {
		if _, ok := st.fails[k]; !ok {
			st.fails[k] = v
			st.failSched[k] = o.failSched[k]
		}
	}
}

// c20ExploreILFrom enumerates every interleaving below the fixed prefix.
func c20ExploreILFrom(cs c20ILCase, dir string, wantTraces bool, prefix []int) *c20ILStats {
	st := c20NewILStats()
	sched := append([]int(nil), prefix...)
	for {
		if dl := atomic.LoadInt64(&c20ILDeadline); dl != 0 && st.leaves%256 == 0 && time.Now().UnixNano() > dl {
			atomic.StoreInt64(&c20ILExpired, 1)
			return st
		}
		alts, trace, outcome, fails := c20RunSchedule(cs, dir, sched, wantTraces)
		st.leaves++
		st.steps += int64(len(alts))
		st.outcomes[outcome]++
		if wantTraces {
			st.traces[strings.Join(trace, " ")] = struct{}{}
		}
		// complete the schedule actually taken
		full := make([]int, len(alts))
		copy(full, sched)
		for k, d := range fails {
			if _, ok := st.fails[k]; !ok {
				st.fails[k] = d
				st.failSched[k] = append([]int(nil), full...)
			}
		}
		// next schedule: deepest choice point with an untried alternative
		i := len(full) - 1
		for ; i >= len(prefix); i-- {
			if full[i]+1 < alts[i] {
				break
			}
		}
		if i < len(prefix) {
			return st
		}
		sched = append(full[:i:i], full[i]+1)
	}
}

// ================================================================ behavioural conformance of the step model

// c20Conformance runs every sequence (length <= 4) over {lockA, unlockA,
// lockB, unlockB} (unlock unconditional here) through the real
// lockDir/unlockDir and through the step model, and compares results and
// directory contents.
func c20Conformance() (n int, mismatches []string) {
	type op struct {
		who    int
		unlock bool
	}
	ops := []op{{0, false}, {0, true}, {1, false}, {1, true}}
	var rec func(cur []op)
	root := vkScratch("c20cf")
	defer c20RemoveAll(root)
	listing := func(dir string) string {
		des, _ := ioutil.ReadDir(dir)
		var out []string
		for _, de := range des {
			name := de.Name()
			if strings.HasSuffix(name, ".tmp") {
				name = "lock*.tmp"
			}
			b, _ := ioutil.ReadFile(filepath.Join(dir, de.Name()))
			nlink := uint64(0)
			if st, ok := de.Sys().(*syscall.Stat_t); ok {
				nlink = uint64(st.Nlink)
			}
			out = append(out, fmt.Sprintf("%s(%q,nlink=%d)", name, b, nlink))
		}
		return strings.Join(out, ",")
	}
	rec = func(cur []op) {
		if len(cur) > 0 {
			n++
			d1, d2 := filepath.Join(root, "real"), filepath.Join(root, "model")
			_ = os.MkdirAll(d1, 0700)
			_ = os.MkdirAll(d2, 0700)
			var desc []string
			for _, o := range cur {
				var e1, e2 error
				if o.unlock {
					e1 = unlockDir(d1)
					c := &c20Cont{name: "m", dir: d2, pc: 9}
					c.step()
					desc = append(desc, fmt.Sprintf("unlock%d", o.who))
				} else {
					e1 = lockDir(d1)
					c := &c20Cont{name: "m", dir: d2}
					for !c.done {
						c.step()
					}
					e2 = c.result
					desc = append(desc, fmt.Sprintf("lock%d", o.who))
				}
				if c20ErrName(e1) != c20ErrName(e2) || listing(d1) != listing(d2) {
					mismatches = append(mismatches, fmt.Sprintf("%v: real %s {%s}, step model %s {%s}", desc, c20ErrName(e1), listing(d1), c20ErrName(e2), listing(d2)))
					break
				}
			}
			_ = os.RemoveAll(d1)
			_ = os.RemoveAll(d2)
		}
		if len(cur) == 4 {
			return
		}
		for _, o := range ops {
			rec(append(cur, o))
		}
	}
	rec(nil)
	return n, mismatches
}

// ================================================================ real crash (kill -9) of a serving child

func c20CrashChild(args []string) int {
	if len(args) < 1 {
		return 2
	}
	dir := args[0]
	r, err := New(c20Options(time.Hour), &c20FSM{}, dir)
	if err != nil {
		fmt.Println("error:", err)
		return 1
	}
	nw := c20NewNet()
	n := &c20Node{r: r, lr: nw.listen("child", "child"), serveCh: make(chan error, 1)}
	r.dialFn = nw.dialer("child")
	go func() { n.serveCh <- r.Serve(n.lr) }()
	if err := n.waitServing(20 * time.Second); err != nil {
		fmt.Println("error:", err)
		return 1
	}
	fmt.Println("serving")
	_ = os.Stdout.Sync()
	select {}
}

// c20RealCrash kills a serving child process and reports what it leaves.
func c20RealCrash() (note string, ok bool) {
	exe, err := os.Executable()
	if err != nil {
		return "real crash not run: " + err.Error(), false
	}
	dir := vkScratch("c20crash")
	defer c20RemoveAll(dir)
	if err := SetIdentity(dir, 1, 1); err != nil {
		return "real crash not run: " + err.Error(), false
	}
	cmd := exec.Command(exe, "c20crashchild", dir)
	out, err := cmd.StdoutPipe()
	if err != nil {
		return "real crash not run: " + err.Error(), false
	}
	if err := cmd.Start(); err != nil {
		return "real crash not run: " + err.Error(), false
	}
	line, _ := bufio.NewReader(out).ReadString('\n')
	if strings.TrimSpace(line) != "serving" {
		_ = cmd.Process.Kill()
		_ = cmd.Wait()
		return "real crash not run: child said " + line, false
	}
	pid := cmd.Process.Pid
	_ = cmd.Process.Signal(syscall.SIGKILL)
	_ = cmd.Wait()
	lock, id, temps, _ := c20DirFacts(dir)
	content, _ := ioutil.ReadFile(filepath.Join(dir, "lock"))
	e1 := SetIdentity(dir, 1, 1)
	var e2 error
	r, err := New(c20Options(time.Hour), &c20FSM{}, dir)
	if err != nil {
		e2 = err
	} else {
		nw := c20NewNet()
		n := &c20Node{r: r, lr: nw.listen("x", "x"), serveCh: make(chan error, 1)}
		go func() { n.serveCh <- r.Serve(n.lr) }()
		if err := n.waitServing(20 * time.Second); err == nil {
			e2 = nil // serving on a directory whose lock file is there
			_ = n.stop()
		} else {
			e2 = <-n.serveCh
			_ = r.storage.log.Close()
		}
	}
	// the simulated crash of part (1) leaves: lock file with "<pid>\n", no temp file
	ok = lock && temps == 0 && strings.TrimSpace(string(content)) == fmt.Sprint(pid) && e1 == ErrLockExists && e2 == ErrLockExists && id == c20Ident{1, 1}
	return fmt.Sprintf("real kill -9 of a serving child (pid %d): lock file left=%v content=%q temp files=%d; afterwards SetIdentity -> %s, Serve -> %s (the directory stays unusable until the lock file is removed by hand; not a violation of the statement)",
		pid, lock, content, temps, c20ErrName(e1), c20ErrName(e2)), ok
}

// ================================================================ part driver

func c20PartLock(ctx *c20Ctx) bool {
	complete := true
	cov := ctx.run.Cov

	// ---- drift guards
	_, hash, err := c20LockSource()
	hashOK := err == nil && hash == c20LockSourceHash
	cov["lock_source_hash"] = hash
	cov["lock_source_hash_matches"] = hashOK
	if !hashOK {
		complete = false
		ctx.note("DRIFT: the text of lockDir/unlockDir in util.go (sha256 %s, err %v) differs from the one the step model was written against (%s): the interleaving results below describe the step model, not necessarily the current lockDir", hash, err, c20LockSourceHash)
	}
	nconf, mism := c20Conformance()
	cov["lock_model_conformance_sequences"] = nconf
	cov["lock_model_conformance_mismatches"] = len(mism)
	atomic.AddInt64(&ctx.evals, int64(nconf))
	if len(mism) > 0 {
		complete = false
		ctx.run.Violation("lock-model-drift", "the step model of lockDir does not behave like the built lockDir/unlockDir (sequentially): "+mism[0], map[string]interface{}{"part": "lock", "kind": "conformance"})
	}

	// ---- (1) sequences, run by child processes in chunks (a failed New leaks the
	// storage it opened; a bounded chunk per process keeps that harmless)
	maxLen := 4
	if ctx.tier == "thorough" {
		maxLen = 5
	}
	total := c20NumSeqs(maxLen)
	const chunk = 3000
	nchunks := (total + chunk - 1) / chunk
	sums := make([]*c20SeqSummary, nchunks)
	c20Parallel(nchunks, ctx.workers, func(i int) {
		from, to := i*chunk, (i+1)*chunk
		if to > total {
			to = total
		}
		sums[i] = c20SeqChunkInChild(from, to, maxLen)
	})
	executed, skipped, swallowed := 0, 0, 0
	for i, sm := range sums {
		if sm.Error != "" {
			complete = false
			if strings.HasPrefix(sm.Error, "child failed") {
				ctx.harnessErr("lockseq", "chunk %d: %s", i, sm.Error)
			} else {
				ctx.run.Violation("process-crashed:lockseq:"+c20Normalize(sm.Error), fmt.Sprintf("the process running the storage sequences %d.. died: %s", i*chunk, sm.Error), map[string]interface{}{"part": "lock", "kind": "chunk", "from": i * chunk, "to": (i + 1) * chunk, "max_len": maxLen})
			}
			continue
		}
		executed += sm.Executed
		skipped += sm.Skipped
		swallowed += sm.Swallowed
		atomic.AddInt64(&ctx.evals, int64(sm.Executed))
		for _, h := range sm.Harness {
			ctx.harnessErr("lockseq", "%s", h)
			complete = false
		}
		for c := range sm.Classes {
			kv := strings.SplitN(c, " => ", 2)
			ctx.distinct.add("lockseq", kv[0], kv[1])
		}
		if i%(nchunks/3+1) == 0 {
			for _, smp := range sm.Samples {
				ctx.samples.Add(map[string]interface{}{"part": "lockseq", "steps": smp})
			}
		}
		for _, f := range sm.Fails {
			ctx.run.Violation(f.Key, f.Desc, map[string]interface{}{"part": "lock", "kind": "sequence", "seq": c20ShrinkSeq(f.Seq, f.Key)})
		}
	}
	cov["lock_sequences"] = executed
	cov["lock_sequences_generated"] = total
	cov["lock_sequences_skipped_never_performed_ops"] = skipped
	cov["lock_sequence_max_len"] = maxLen
	cov["setidentity_error_swallowed"] = swallowed
	if swallowed > 0 {
		ctx.note("SetIdentity with an identity different from the stored one returned nil instead of the documented ErrIdentityAlreadySet in %d calls: the deferred `err = unlockDir(storageDir)` overwrites the result; the stored identity was left unchanged in every case (so the statement holds), but the caller is not told", swallowed)
	}
	ctx.note("New returns ErrIdentityNotSet after openStorage has opened the log; that storage is not closed (descriptor/mapping leak per failed New; outside the statement)")

	// ---- real crash
	note, ok := c20RealCrash()
	ctx.note("%s", note)
	cov["real_crash_matches_simulated"] = ok
	if !ok {
		complete = false
	}

	// ---- (2) interleavings
	var cases []c20ILCase
	roles := c20Roles()
	for _, a := range roles {
		for _, b := range roles {
			cases = append(cases, c20ILCase{Roles: []c20Role{a, b}})
		}
	}
	// SetIdentity against SetIdentity / Serve, identities equal and different, fresh and preset
	si := func(id c20Ident) c20Role { x := id; return c20Role{Name: "setid", SetID: &x, Unlock: true} }
	for _, ids := range [][2]c20Ident{{{1, 1}, {1, 2}}, {{1, 1}, {1, 1}}, {{1, 1}, {2, 1}}} {
		cases = append(cases, c20ILCase{Roles: []c20Role{si(ids[0]), si(ids[1])}})
		p := c20Ident{2, 2}
		cases = append(cases, c20ILCase{Roles: []c20Role{si(ids[0]), si(ids[1])}, Preset: &p})
	}
	for _, r := range roles[:2] {
		cases = append(cases, c20ILCase{Roles: []c20Role{si(c20Ident{1, 1}), r}})
	}
	nTwo := len(cases)
	if ctx.tier == "thorough" {
		// three contenders, private steps fused (see reduction check below)
		base := []c20Role{roles[0], roles[1], roles[3], roles[4], si(c20Ident{1, 2})}
		for i := range base {
			for j := i; j < len(base); j++ {
				for k := j; k < len(base); k++ {
					cases = append(cases, c20ILCase{Roles: []c20Role{base[i], base[j], base[k]}, Fused: true})
				}
			}
		}
	}
	stats := make([]*c20ILStats, len(cases))
	root := vkScratch("c20il")
	defer c20RemoveAll(root)
	c20Parallel(len(cases), ctx.workers, func(i int) {
		dir := filepath.Join(root, fmt.Sprint(i))
		_ = os.MkdirAll(dir, 0700)
		stats[i] = c20ExploreIL(cases[i], dir, false)
	})
	var leaves, steps, leaves3 int64
	for i, st := range stats {
		leaves += st.leaves
		steps += st.steps
		if i >= nTwo {
			leaves3 += st.leaves
		}
		atomic.AddInt64(&ctx.evals, st.leaves)
		for o := range st.outcomes {
			ctx.distinct.add("lockil", c20RoleNames(cases[i].Roles)+fmt.Sprintf(" preset=%v", cases[i].Preset != nil), c20OutcomeClass(o))
		}
		if i%17 == 3 {
			outs := []string{}
			for o, n := range st.outcomes {
				outs = append(outs, fmt.Sprintf("%s x%d", o, n))
			}
			sort.Strings(outs)
			ctx.samples.Add(map[string]interface{}{"part": "lockil", "roles": cases[i].Roles, "interleavings": st.leaves, "outcomes": outs})
		}
		for k, d := range st.fails {
			ctx.run.Violation(k, d+fmt.Sprintf(" [roles %v, schedule %v]", cases[i].Roles, st.failSched[k]), map[string]interface{}{"part": "lock", "kind": "interleaving", "case": cases[i], "schedule": st.failSched[k]})
		}
	}
	if ctx.tier == "thorough" {
		// three contenders WITHOUT fusing: hold x hold x hold, split by schedule prefix
		cs := c20ILCase{Roles: []c20Role{roles[0], roles[0], roles[0]}}
		pdir := filepath.Join(root, "pfx")
		_ = os.MkdirAll(pdir, 0700)
		prefixes := c20ILPrefixes(cs, pdir, 5)
		parts := make([]*c20ILStats, len(prefixes))
		atomic.StoreInt64(&c20ILDeadline, time.Now().Add(10*time.Minute).UnixNano())
		c20Parallel(len(prefixes), ctx.workers, func(i int) {
			dir := filepath.Join(root, fmt.Sprintf("p%d", i))
			_ = os.MkdirAll(dir, 0700)
			parts[i] = c20ExploreILFrom(cs, dir, false, prefixes[i])
			_ = os.RemoveAll(dir)
		})
		atomic.StoreInt64(&c20ILDeadline, 0)
		if atomic.LoadInt64(&c20ILExpired) != 0 {
			complete = false
			ctx.note("the unreduced three-contender exploration hit its 10 minute cap and is incomplete")
		}
		tot := c20NewILStats()
		for _, p := range parts {
			tot.merge(p)
		}
		leaves += tot.leaves
		steps += tot.steps
		atomic.AddInt64(&ctx.evals, tot.leaves)
		cov["lock_interleavings_three_contenders_unreduced"] = int(tot.leaves)
		for o := range tot.outcomes {
			ctx.distinct.add("lockil", "hold+hold+hold unreduced", o)
		}
		for k, d := range tot.fails {
			ctx.run.Violation(k, d+fmt.Sprintf(" [roles %v, schedule %v]", cs.Roles, tot.failSched[k]), map[string]interface{}{"part": "lock", "kind": "interleaving", "case": cs, "schedule": tot.failSched[k]})
		}
	}
	cov["lock_interleavings"] = int(leaves)
	cov["lock_interleaving_steps"] = int(steps)
	cov["lock_interleaving_cases"] = len(cases)
	cov["lock_interleavings_three_contenders_fused"] = int(leaves3)

	// ---- reduction check: fused exploration sees the same visible traces as the full one
	redOK := true
	for _, cs := range []c20ILCase{{Roles: []c20Role{roles[1], roles[1]}}, {Roles: []c20Role{roles[0], roles[1]}}, {Roles: []c20Role{roles[1], roles[4]}}, {Roles: []c20Role{si(c20Ident{1, 1}), si(c20Ident{1, 2})}}} {
		dir := filepath.Join(root, "red")
		_ = os.MkdirAll(dir, 0700)
		full := c20ExploreIL(cs, dir, true)
		f := cs
		f.Fused = true
		fused := c20ExploreIL(f, dir, true)
		atomic.AddInt64(&ctx.evals, full.leaves+fused.leaves)
		same := len(full.traces) == len(fused.traces)
		for t := range full.traces {
			if _, ok := fused.traces[t]; !ok {
				same = false
			}
		}
		if !same {
			redOK = false
			ctx.harnessErr("lock-reduction", "fused exploration of %v sees %d visible traces, full exploration %d", cs.Roles, len(fused.traces), len(full.traces))
		}
		ctx.note("reduction check %s: full %d interleavings / fused %d, %d distinct visible traces in both", c20RoleNames(cs.Roles), full.leaves, fused.leaves, len(full.traces))
	}
	cov["lock_reduction_check_ok"] = redOK

	// ---- explorer self-test: a broken protocol must be caught, SameFile alone must save it
	dir := filepath.Join(root, "self")
	_ = os.MkdirAll(dir, 0700)
	broken := c20ExploreIL(c20ILCase{Roles: []c20Role{roles[1], roles[1]}, Variant: c20VarIgnoreExistAll}, dir, false)
	saved := c20ExploreIL(c20ILCase{Roles: []c20Role{roles[1], roles[1]}, Variant: c20VarIgnoreExist}, dir, false)
	_, brokenCaught := broken.fails["two-holders:interleaving,lock+unlock+lock+unlock"]
	cov["lock_explorer_selftest"] = map[string]interface{}{
		"link_exist_ignored_and_samefile_skipped_caught": brokenCaught, "interleavings": broken.leaves,
		"link_exist_ignored_samefile_kept_violations": len(saved.fails),
	}
	if !brokenCaught {
		ctx.harnessErr("lock-selftest", "the interleaving explorer did not find two holders in the deliberately broken protocol")
		complete = false
	}
	return complete && redOK
}

func c20OutcomeClass(o string) string { return o }

// c20ShrinkSeq drops operations while the sequence still fails with the same key.
func c20ShrinkSeq(seq []c20Op, key string) []c20Op {
	has := func(s []c20Op) bool {
		r := c20RunSeq(s)
		if r.Skipped || r.Harness != "" {
			return false
		}
		for _, f := range r.Fails {
			if strings.HasPrefix(f, key+"\x00") {
				return true
			}
		}
		return false
	}
	cur := append([]c20Op(nil), seq...)
	for changed := true; changed; {
		changed = false
		for i := range cur {
			cand := append(append([]c20Op(nil), cur[:i]...), cur[i+1:]...)
			if len(cand) > 0 && has(cand) {
				cur, changed = cand, true
				break
			}
		}
	}
	return cur
}

func c20ReplayLock(raw json.RawMessage) []string {
	var x struct {
		Kind     string    `json:"kind"`
		Seq      []c20Op   `json:"seq"`
		Case     c20ILCase `json:"case"`
		Schedule []int     `json:"schedule"`
	}
	if err := json.Unmarshal(raw, &x); err != nil {
		fmt.Println("replay:", err)
		return nil
	}
	switch x.Kind {
	case "sequence":
		r := c20RunSeq(x.Seq)
		for _, s := range r.Steps {
			fmt.Println("  ", s)
		}
		if r.Harness != "" {
			fmt.Println("harness error:", r.Harness)
		}
		return r.Fails
	case "interleaving":
		dir := vkScratch("c20il")
		defer c20RemoveAll(dir)
		_, trace, outcome, fails := c20RunSchedule(x.Case, dir, x.Schedule, true)
		fmt.Println("  visible trace:", strings.Join(trace, " "))
		fmt.Println("  outcome:", outcome)
		var out []string
		for k, d := range fails {
			out = append(out, k+"\x00"+d)
		}
		sort.Strings(out)
		return out
	case "conformance":
		_, mism := c20Conformance()
		var out []string
		for _, m := range mism {
			out = append(out, "lock-model-drift\x00"+m)
		}
		return out
	}
	return nil
}
