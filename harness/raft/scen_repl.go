//go:build verif
// +build verif

package raft

import "time"

// Scenario family "repl" (C02, C03, C04, C19): log replication under client
// updates, elections, message loss / duplication / truncation, partitions
// and crashes, from several seed states.

type replSeed struct {
	name   string
	script []string
}

var replSeeds = []replSeed{
	// established leader n1 (term 2), no-op committed and applied everywhere
	{"leader", []string{"T:1", "run"}},
	// leader n1 cut off with an uncommitted entry; the others have not noticed yet
	{"isolated-tail", []string{"T:1", "run", "block:1:2", "block:1:3", "update:1", "run", "heal:1:2", "heal:1:3"}},
	// follower n3 lags: it missed two committed entries
	{"lagging", []string{"T:1", "run", "block:1:3", "update:1", "run", "update:1", "run", "heal:1:3"}},
	// Figure-8 shape on three voters: n1 holds an uncommitted term-2 entry, n2 holds a term-3 no-op that reached nobody,
	// n1 leads term 4 (its no-op appended, nothing of term 4 replicated yet), n3 holds neither
	{"figure8", []string{"T:1", "run", "block:1:2", "block:1:3", "update:1", "run", "disc", "elect:2", "block:2:3", "run",
		"heal:1:2", "heal:1:3", "heal:2:3", "disc", "elect:1", "elect:1"}},
	// long stale tail: n1 was cut off as leader of term 2 with three uncommitted entries; n2 leads term 3 and committed
	// fewer entries with n3 (n1's log is longer but older)
	{"longtail", []string{"T:1", "run", "block:1:2", "block:1:3", "update:1", "update:1", "update:1", "run", "disc", "elect:2", "run", "update:2", "run", "heal:1:2", "heal:1:3"}},
	// divergent tails: old leader n1 (term 2) has an uncommitted entry, n2 is leader of term 3 with its own entry
	{"divergent", []string{"T:1", "run", "block:1:2", "block:1:3", "update:1", "run", "disc", "T:2", "run", "update:2", "run:4", "heal:1:2", "heal:1:3"}},
}

// a leader about to be re-elected: n1 led term 2, accepted a client update (index 3) that reached nobody and stepped
// down; n2 leads term 3 and its no-op has replaced that entry on n1, which does not know yet that it is committed;
// whatever n1's leader state kept from term 2 meets its next term
var replSeedReelect = replSeed{"reelect", []string{"T:1", "run", "block:1:2", "block:1:3", "update:1", "run", "heal:1:2", "heal:1:3", "disc",
	"elect:2", "heal:2:3", `ev:{"k":"RS","n":1,"f":1}`, "deliver:1", `ev:{"k":"RR","n":1,"f":1}`}}

func replSeedByName(name string) replSeed {
	if name == "reelect" {
		return replSeedReelect
	}
	for _, s := range replSeeds {
		if s.name == name {
			return s
		}
	}
	panic("unknown replication seed " + name)
}

func scenRepl(seed replSeed, dev int, eagerFSM bool, updates int, crashes int, maxTerm uint64) *simScenario {
	sc := scenReplBase(seed, dev, eagerFSM, updates, crashes, maxTerm)
	if seed.name == "figure8" || seed.name == "longtail" {
		// deep seeds: keep the menu to what matters there (loss / truncation of appends, elections, crash)
		sc.Menu.Dups = false
		sc.Menu.ClientNodes = []int{0}
		sc.Menu.MaxTerm = maxTerm + 2
	}
	return sc
}

func scenReplBase(seed replSeed, dev int, eagerFSM bool, updates int, crashes int, maxTerm uint64) *simScenario {
	return &simScenario{
		Name:   "repl-" + seed.name,
		Opt:    worldOpt{Nodes: 3, Voters: []uint64{1, 2, 3}, EagerFSM: eagerFSM, EagerLU: true, EagerConnect: true},
		Script: seed.script,
		Menu: simMenu{Timeouts: true, MaxTerm: maxTerm, Drops: true, Dups: true, Cuts: true, Crashes: crashes > 0,
			Clients: []string{"update"}, MaxUpdates: updates},
		MaxDev:  dev,
		Crashes: crashes,
		Final:   "adversary",
	}
}

func replScenarios(tier string, eagerFSM bool) []*simScenario {
	var out []*simScenario
	for _, s := range replSeeds {
		if tier == "thorough" {
			out = append(out, scenRepl(s, 4, eagerFSM, 2, 1, 5))
		} else {
			out = append(out, scenRepl(s, 2, eagerFSM, 1, 1, 4))
		}
	}
	return out
}

// scenFigure8Net: the Figure-8 seed with a network-only fault alphabet (connection loss inside a request, drops);
// its adversarial final check continues under a leader that lacks a committed entry (state machines, clients)
func scenFigure8Net(tier string) *simScenario {
	d := 2
	if tier == "thorough" {
		d = 3
	}
	fig := scenRepl(replSeedByName("figure8"), d, true, 0, 0, 6)
	fig.Name = "repl-figure8-net"
	fig.Menu = simMenu{Cuts: true, Drops: true}
	return fig
}

func replBudget(tier string) time.Duration {
	if tier == "thorough" {
		return 40 * time.Minute
	}
	return 300 * time.Second
}

func init() {
	for _, s := range replSeeds {
		simScenarios["repl-"+s.name] = scenRepl(s, 2, true, 1, 1, 4)
	}
	simScenarios["repl-reelect"] = scenRepl(replSeedReelect, 2, false, 0, 0, 5)
	simScenarios["repl-reelect"].Menu = simMenu{OrderCost: true, Timeouts: true, MaxTerm: 5, Drops: true}
	c02 := &simCheckSpec{Prop: "C02", Oracles: []string{"commit", "leader"},
		Scenarios: func(t string) []*simScenario {
			// focused scenarios first (small fault alphabets that complete their bound quickly), then the broad ones
			d := 2
			if t == "thorough" {
				d = 3
			}
			fig := scenFigure8Net(t)
			// "across ... snapshots": delayed / duplicated InstallSnapshot requests on a lagging follower
			snapNet := scenSnap(snapSeeds[snapSeedIndex("lagging")], d, true, false, 0)
			snapNet.Name = "snap-lagging-net"
			snapNet.Menu = simMenu{Drops: true, Clients: []string{"update"}, MaxUpdates: 1, ClientNodes: []int{0}}
			snapNet.Final = "adversary"
			out := []*simScenario{fig, snapNet}
			out = append(out, replScenarios(t, true)...)
			return append(out, scenSnap(snapSeeds[snapSeedIndex("lagging")], 2, true, false, 1))
		}, Budget: replBudget,
		MustReach: []string{"commits"}}
	vkChecks["C02"] = func(args []string) int { return runSimCheck(c02, args) }
	// C03 also covers restart / snapshot restore / snapshot installation: two snapshot seeds are added
	withSnap := func(t string, eagerFSM bool, dev int) []*simScenario {
		out := append([]*simScenario{scenFigure8Net(t)}, replScenarios(t, eagerFSM)...)
		if !eagerFSM {
			// C03 only: the FSM goroutine is fed from the leader's queue of client entries as well as from the log
			re := scenRepl(replSeedReelect, dev, eagerFSM, 0, 0, 5)
			re.Menu = simMenu{OrderCost: true, Timeouts: true, MaxTerm: 5, Drops: true}
			re.MaxDev = dev + 1
			out = append([]*simScenario{re}, out...)
		}
		out = append(out, scenSnap(snapSeeds[snapSeedIndex("divergent")], dev, eagerFSM, false, 1), scenSnap(snapSeeds[snapSeedIndex("lagging")], dev, eagerFSM, true, 1))
		return out
	}
	c03 := &simCheckSpec{Prop: "C03", Oracles: []string{"apply", "snapshot"},
		Scenarios: func(t string) []*simScenario { return withSnap(t, false, 2) }, Budget: replBudget,
		MustReach: []string{"commits"}}
	vkChecks["C03"] = func(args []string) int { return runSimCheck(c03, args) }
	c04 := &simCheckSpec{Prop: "C04", Oracles: []string{"match"},
		Scenarios: func(t string) []*simScenario { return withSnap(t, true, 2) }, Budget: replBudget,
		MustReach: []string{"commits"}}
	vkChecks["C04"] = func(args []string) int { return runSimCheck(c04, args) }
}
