// +build verif

package raft

// Simulated network of the lock-step explorer (E-SIM, DESIGN.md 2.2 seam 3).
//
// A simConn is one TCP-like connection: two FIFO byte streams.  The client
// side is used by the real code (connPool.getConn, conn.doRPC,
// replication.writeAppendEntriesReq ...).  Client-side reads park the calling
// goroutine (with busy accounting) until the explorer makes bytes available;
// server-side reads never block: missing bytes are a read error, which is what
// a read deadline produces in production.

import (
	"bufio"
	"bytes"
	"errors"
	"fmt"
	"io"
	"net"
	"sync"
	"time"
)

var (
	errSimRefused = errors.New("sim: connection refused")
	errSimNoData  = errors.New("sim: read timeout (no more bytes in flight)")
	errSimClosed  = errors.New("sim: use of closed connection")
)

type simAddr string

func (a simAddr) Network() string { return "sim" }
func (a simAddr) String() string  { return string(a) }

type simConn struct {
	w        *world
	cli, srv int // node indices
	seq      int // per (cli,srv) sequence number: stable connection identity
	purpose  string

	c2s, s2c bytes.Buffer
	held     bytes.Buffer // responses produced by the server but not yet released to the client
	hold     bool         // server writes go to held
	closed   bool

	readerWaiting bool
	rcond         *sync.Cond

	// server side parsing state (persistent per connection, like handleConn)
	srvConn  *conn
	identNid uint64 // nid named by a successful identity handshake (0 = none)
	discSent bool   // "disconnected" notification already produced / not needed
	ident    bool   // handshake completed successfully (client view)

	delivered int // number of requests delivered so far
	tnChecked bool // timeout-now request on this connection already checked by the transfer oracle
}

func (c *simConn) key() string { return fmt.Sprintf("%d>%d#%d", c.cli, c.srv, c.seq) }

func (c *simConn) holdResp(on bool) {
	c.w.mu.Lock()
	c.hold = on
	c.w.mu.Unlock()
}

// simEnd is one endpoint of a simConn; implements net.Conn.
type simEnd struct {
	c      *simConn
	client bool
}

func (e *simEnd) Read(p []byte) (int, error) {
	c := e.c
	w := c.w
	w.mu.Lock()
	defer w.mu.Unlock()
	if !e.client {
		if c.c2s.Len() == 0 {
			if c.closed {
				return 0, io.EOF
			}
			return 0, errSimNoData
		}
		return c.c2s.Read(p)
	}
	for c.s2c.Len() == 0 {
		if c.closed {
			return 0, io.EOF
		}
		c.readerWaiting = true
		w.busy--
		w.cond.Broadcast()
		for c.readerWaiting {
			c.rcond.Wait()
		}
	}
	return c.s2c.Read(p)
}

func (e *simEnd) Write(p []byte) (int, error) {
	c := e.c
	w := c.w
	w.mu.Lock()
	defer w.mu.Unlock()
	if c.closed {
		return 0, errSimClosed
	}
	if e.client {
		c.c2s.Write(p)
	} else if c.hold || c.srv == w.ghost {
		// (ghost: the answering node dies inside this transition; its output is discarded afterwards)
		c.held.Write(p)
	} else {
		c.s2c.Write(p)
		c.wakeLocked()
	}
	return len(p), nil
}

// wakeLocked wakes a parked client reader; w.mu must be held.
func (c *simConn) wakeLocked() {
	if c.readerWaiting {
		c.readerWaiting = false
		c.w.busy++
		c.rcond.Broadcast()
	}
}

func (e *simEnd) Close() error {
	c := e.c
	c.w.mu.Lock()
	defer c.w.mu.Unlock()
	c.closeLocked()
	return nil
}

func (c *simConn) closeLocked() {
	if !c.closed {
		c.closed = true
		c.wakeLocked()
	}
}

func (e *simEnd) LocalAddr() net.Addr                { return simAddr(fmt.Sprintf("n%d", e.c.cli)) }
func (e *simEnd) RemoteAddr() net.Addr               { return simAddr(fmt.Sprintf("n%d", e.c.srv)) }
func (e *simEnd) SetDeadline(t time.Time) error      { return nil }
func (e *simEnd) SetReadDeadline(t time.Time) error  { return nil }
func (e *simEnd) SetWriteDeadline(t time.Time) error { return nil }

// simListener blocks in Accept until closed (the harness plays server.handleConn itself).
type simListener struct {
	addr string
	ch   chan struct{}
	once sync.Once
}

func newSimListener(addr string) *simListener {
	return &simListener{addr: addr, ch: make(chan struct{})}
}

func (l *simListener) Accept() (net.Conn, error) {
	<-l.ch
	return nil, errSimClosed
}
func (l *simListener) Close() error   { l.once.Do(func() { close(l.ch) }); return nil }
func (l *simListener) Addr() net.Addr { return simAddr(l.addr) }

// dialer returns the dialFn of node idx.
func (w *world) dialer(idx int) dialFn {
	return func(network, address string, timeout time.Duration) (net.Conn, error) {
		w.mu.Lock()
		defer w.mu.Unlock()
		dst, ok := w.addr[address]
		if !ok {
			return nil, errSimRefused
		}
		if !w.nodes[dst].up || w.linkBlockedLocked(idx, dst) {
			return nil, errSimRefused
		}
		k := [2]int{idx, dst}
		seq := w.connSeq[k]
		w.connSeq[k] = seq + 1
		c := &simConn{w: w, cli: idx, srv: dst, seq: seq}
		c.rcond = sync.NewCond(&w.mu)
		srvEnd := &simEnd{c: c, client: false}
		c.srvConn = &conn{rwc: srvEnd, bufr: bufio.NewReader(srvEnd), bufw: bufio.NewWriter(srvEnd)}
		w.conns = append(w.conns, c)
		return &simEnd{c: c, client: true}, nil
	}
}

func (w *world) linkBlockedLocked(a, b int) bool {
	if a > b {
		a, b = b, a
	}
	return w.blocked[[2]int{a, b}]
}

// pendingReq describes the first undelivered request on a connection.
type pendingReq struct {
	typ      rpcType
	complete bool
	desc     string
	size     int // bytes of the complete request
	cuts     []int
	term     uint64
	src      uint64
	lastIdx  uint64 // append: index of the last entry carried (prevLogIndex+numEntries)
	nEntries uint64
	canon    string // canonical content (independent of the byte order of encoded configurations)
}

// peekRequest parses (without consuming) the first request in flight on c.
// The bytes are those in c2s plus whatever the server-side bufio.Reader has
// already buffered.
func (c *simConn) pendingBytesLocked() []byte {
	var b []byte
	if n := c.srvConn.bufr.Buffered(); n > 0 {
		p, _ := c.srvConn.bufr.Peek(n)
		b = append(b, p...)
	}
	b = append(b, c.c2s.Bytes()...)
	return b
}

func (c *simConn) peekRequest() *pendingReq {
	c.w.mu.Lock()
	b := c.pendingBytesLocked()
	c.w.mu.Unlock()
	return parseRequest(b)
}

func parseRequest(b []byte) *pendingReq {
	if len(b) == 0 {
		return nil
	}
	p := &pendingReq{typ: rpcType(b[0])}
	if !p.typ.isValid() {
		p.desc = fmt.Sprintf("invalid(%d)", b[0])
		return p
	}
	rd := bytes.NewReader(b[1:])
	req := p.typ.createReq()
	if err := req.decode(rd); err != nil {
		p.desc = fmt.Sprintf("%T(partial)", req)
		return p
	}
	p.term, p.src = req.getTerm(), req.from()
	hdr := len(b) - rd.Len()
	switch req := req.(type) {
	case *identityReq:
		p.desc = fmt.Sprintf("ident{src:%d cid:%d nid:%d}", req.src, req.cid, req.nid)
	case *voteReq:
		p.desc = fmt.Sprintf("vote{t:%d src:%d last:%d/%d xfer:%v}", req.term, req.src, req.lastLogIndex, req.lastLogTerm, req.transfer)
	case *timeoutNowReq:
		p.desc = fmt.Sprintf("timeoutNow{t:%d src:%d}", req.term, req.src)
	case *appendReq:
		p.desc = fmt.Sprintf("append{t:%d src:%d prev:%d/%d commit:%d n:%d", req.term, req.src, req.prevLogIndex, req.prevLogTerm, req.ldrCommitIndex, req.numEntries)
		p.cuts = append(p.cuts, hdr)
		p.lastIdx, p.nEntries = req.prevLogIndex+req.numEntries, req.numEntries
		for i := uint64(0); i < req.numEntries; i++ {
			e := &entry{}
			before := rd.Len()
			if err := e.decode(rd); err != nil {
				p.desc += " partial}"
				return p
			}
			p.desc += fmt.Sprintf(" %d/%d/%d", e.index, e.term, e.typ)
			p.canon += fmt.Sprintf("|%d:%v", e.index, recOf(e))
			_ = before
			if i+1 < req.numEntries {
				p.cuts = append(p.cuts, len(b)-rd.Len())
			}
		}
		p.desc += "}"
	case *installSnapReq:
		p.desc = fmt.Sprintf("installSnap{t:%d src:%d last:%d/%d cfg:%d size:%d}", req.term, req.src, req.lastIndex, req.lastTerm, req.lastConfig.Index, req.size)
		p.cuts = append(p.cuts, hdr)
		if int64(rd.Len()) < req.size {
			p.desc += "(partial)"
			return p
		}
		data := make([]byte, req.size)
		_, _ = io.ReadFull(rd, data)
		p.canon = fmt.Sprintf("|cfg{%s}|data%s", canonConfig(req.lastConfig), hashBytes(data))
	}
	p.size = len(b) - rd.Len()
	p.complete = true
	p.canon = p.desc + p.canon
	return p
}
