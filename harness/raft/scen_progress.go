//go:build verif
// +build verif

package raft

// Check C17: bounded progress under a fair schedule from every explored
// state, plus the leader-stability oracle evaluated on every vote request.

import (
	"fmt"
	"time"
)

// fairContinuation stops all faults, restarts what is down and runs a fixed
// fair schedule: all internal events in canonical order until quiescence, then
// (if the goal is not reached) one election timeout, round-robin over the
// eligible nodes.  It returns "" when the goal was reached, else a description.
func fairContinuation(s *simState, maxRounds int, exclude int) (rounds int, problem string) {
	w := s.w
	// faults stop (except that node `exclude`, if any, stays away: kept down, or cut off from everybody)
	for k := range w.blocked {
		_ = s.apply(simEvent{K: "PH", N: k[0], A: k[1]}, true)
	}
	if exclude >= 0 && w.nodes[exclude].up {
		s.isolate(w.nodes[exclude])
	}
	for _, n := range w.nodes {
		if n.idx == exclude {
			continue
		}
		if !n.up && n.r != nil && !n.dead && n.serveErr != ErrNodeRemoved {
			if err := s.apply(simEvent{K: "S", N: n.idx}, true); err != nil {
				return 0, "restart failed: " + err.Error()
			}
		}
	}
	save := w.opt
	w.opt.EagerFSM, w.opt.EagerLU, w.opt.EagerConnect = true, true, true
	w.opt.Heartbeats = true
	defer func() { w.opt = save }()
	seen := map[string]int{}
	probe := 0
	for rounds = 0; rounds <= maxRounds; rounds++ {
		if err := s.runFreeAll(3000); err != nil {
			return rounds, "fair run failed: " + err.Error()
		}
		ok, why := progressGoal(s, &probe)
		if ok {
			return rounds, ""
		}
		h := s.hash()
		if prev, dup := seen[h]; dup {
			return rounds, fmt.Sprintf("lasso: the state of round %d repeats in round %d without reaching the goal (%s)", prev, rounds, why)
		}
		seen[h] = rounds
		// heartbeats come before election timeouts (the heartbeat interval is half the election timeout): every
		// idle stream of every leader sends one, e.g. a leader that ignores the vote requests of a node in a
		// higher term learns that term from the reply
		beats := 0
		for _, e := range w.enabled(&simMenu{}, s.cnt) {
			if e.K != "RH" || e.N == exclude {
				continue
			}
			if d := w.nodes[e.N].drivers[e.F]; d == nil || !d.canHeartbeat() {
				continue
			}
			if err := s.apply(e, true); err != nil {
				return rounds, "heartbeat failed: " + err.Error()
			}
			beats++
			if err := s.runFreeAll(3000); err != nil {
				return rounds, "fair run failed: " + err.Error()
			}
		}
		if beats > 0 {
			if ok, _ := progressGoal(s, &probe); ok {
				return rounds, ""
			}
		}
		// one timeout: prefer a transfer/new-term timer of a leader, else an election timeout
		fired := false
		for _, n := range w.nodes {
			if n.up && n.idx != exclude && n.r.state == Leader && n.r.ldr.transfer.timer.active {
				if err := s.apply(simEvent{K: "T", N: n.idx, S: "transfer"}, true); err != nil {
					return rounds, err.Error()
				}
				fired = true
				break
			}
		}
		if !fired {
			var elig []*simNode
			for _, n := range w.nodes {
				if n.up && n.idx != exclude && n.r.timer.active && n.r.state != Leader {
					elig = append(elig, n)
				}
			}
			if len(elig) == 0 {
				// a leader waiting for a quorum: let its timer expire
				for _, n := range w.nodes {
					if n.up && n.idx != exclude && n.r.timer.active {
						elig = append(elig, n)
					}
				}
			}
			if len(elig) == 0 {
				return rounds, "no timer is active and the goal is not reached: " + why
			}
			n := elig[rounds%len(elig)]
			if err := s.apply(simEvent{K: "T", N: n.idx, S: "main"}, true); err != nil {
				return rounds, err.Error()
			}
		}
	}
	_, why := progressGoal(s, &probe)
	return rounds, fmt.Sprintf("goal not reached within %d fair rounds: %s", maxRounds, why)
}

// runFreeAll applies every free event (including snapshot goroutine steps and
// pending disconnect notifications) until none is enabled.
func (s *simState) runFreeAll(limit int) error {
	w := s.w
	for i := 0; i < limit; i++ {
		save := w.opt.Disconnects
		w.opt.Disconnects = true
		ev := w.enabled(&simMenu{}, s.cnt)
		w.opt.Disconnects = save
		var pick *simEvent
		for j := range ev {
			if ev[j].Dev == 0 && ev[j].K != "RH" && ev[j].K != "S" {
				pick = &ev[j]
				break
			}
		}
		if pick == nil {
			return nil
		}
		if err := s.apply(*pick, true); err != nil {
			return err
		}
	}
	return fmt.Errorf("more than %d internal events without quiescence", limit)
}

// progressGoal: one leader; every running member of its configuration has the
// leader's log, commit index and applied index; no membership action pending;
// and a fresh update gets committed and applied everywhere.
func progressGoal(s *simState, probe *int) (bool, string) {
	w := s.w
	exclude := s.exclude
	var ldr *simNode
	for _, n := range w.nodes {
		if n.up && n.idx != exclude && n.r.state == Leader {
			if ldr != nil && ldr.r.term >= n.r.term {
				continue
			}
			ldr = n
		}
	}
	if ldr == nil {
		return false, "no leader"
	}
	r := ldr.r
	for _, n := range w.nodes {
		if n.up && n != ldr && n.idx != exclude && n.r.state == Leader {
			return false, fmt.Sprintf("two nodes in leader state (%d term %d, %d term %d)", ldr.id, r.term, n.id, n.r.term)
		}
	}
	if !r.configs.IsStable() {
		// Promote and Remove wait, by design, for the node concerned to catch up (ForceRemove exists for
		// nodes that do not come back): an action whose subject stays away need not complete
		pending := !r.configs.IsCommitted()
		for id, nd := range r.configs.Latest.Nodes {
			if nd.Action == None {
				continue
			}
			away := int(id-1) == exclude || !w.nodes[id-1].up
			if away && (nd.nextAction() == Promote || nd.nextAction() == Remove) {
				continue
			}
			pending = true
		}
		if pending {
			return false, fmt.Sprintf("membership change pending on leader %d: %s committed=%v", ldr.id, canonConfig(r.configs.Latest), r.configs.IsCommitted())
		}
	}
	if r.ldr.transfer.inProgress() {
		return false, "leadership transfer still in progress"
	}
	check := func() (bool, string) {
		if r.commitIndex != r.lastLogIndex {
			return false, fmt.Sprintf("leader %d: commit %d < last %d", ldr.id, r.commitIndex, r.lastLogIndex)
		}
		for id := range r.configs.Latest.Nodes {
			n := w.nodes[id-1]
			if !n.up || n.idx == exclude {
				continue
			}
			fr := n.r
			if fr.lastLogIndex != r.lastLogIndex || fr.lastLogTerm != r.lastLogTerm || fr.commitIndex != r.commitIndex {
				return false, fmt.Sprintf("node %d lags: last %d/%d commit %d vs leader %d/%d commit %d", n.id, fr.lastLogIndex, fr.lastLogTerm, fr.commitIndex, r.lastLogIndex, r.lastLogTerm, r.commitIndex)
			}
			if fr.fsm.index != fr.commitIndex {
				return false, fmt.Sprintf("node %d: applied %d < commit %d", n.id, fr.fsm.index, fr.commitIndex)
			}
		}
		return true, ""
	}
	if ok, why := check(); !ok {
		return false, why
	}
	if *probe >= 2 {
		return true, ""
	}
	// a fresh update must go through
	*probe++
	before := len(w.tasks)
	if err := s.apply(simEvent{K: "CL", N: ldr.idx, S: "update"}, true); err != nil {
		return false, "probe update failed: " + err.Error()
	}
	if err := s.runFreeAll(3000); err != nil {
		return false, err.Error()
	}
	st := w.tasks[before]
	if st.ret < 0 {
		return false, fmt.Sprintf("probe update %s on leader %d did not complete", st.payload, ldr.id)
	}
	if _, ok := st.inner.result.(int); !ok {
		return false, fmt.Sprintf("probe update %s on leader %d failed: %v", st.payload, ldr.id, st.inner.result)
	}
	if ldr.up && ldr.r.state == Leader {
		if ok, why := check(); !ok {
			return false, "after probe update: " + why
		}
	}
	return true, ""
}

// progressPossible: the nodes that can run are a majority of the voters of EVERY configuration one of them may be
// operating on (latest and committed configuration of each node that takes part; what only the node staying away
// knows - e.g. a configuration entry it appended and sent to nobody - binds nobody).  Also returns the newest
// configuration held by a participating node.
func progressPossible(s *simState, exclude int) (bool, Config) {
	runnable := func(id uint64) bool {
		n := s.w.nodes[id-1]
		return int(id-1) != exclude && !n.dead && n.serveErr != ErrNodeRemoved
	}
	var newest Config
	enough := true
	for _, n := range s.w.nodes {
		if n.r == nil || !runnable(n.id) {
			continue
		}
		if n.r.configs.Latest.Index >= newest.Index {
			newest = n.r.configs.Latest
		}
		for _, c := range []Config{n.r.configs.Latest, n.r.configs.Committed} {
			alive := 0
			for id, nd := range c.Nodes {
				if nd.Voter && int(id) <= len(s.w.nodes) && runnable(id) {
					alive++
				}
			}
			if alive < c.quorum() {
				enough = false
			}
		}
	}
	return enough, newest
}

func init() {
	finalCheck = func(sc *simScenario, hist []simEvent) []simViolation {
		if sc.Final == "adversary" {
			return runAdversary(sc, hist)
		}
		if sc.Final != "progress" {
			return finalShutdown(sc, hist)
		}
		var out []simViolation
		// variants: everybody comes back; or one node stays away (down / cut off) while the rest is a majority
		nn := sc.Opt.Nodes
		for exclude := -1; exclude < nn; exclude++ {
			s, err := replayExpected(sc, hist)
			if err != nil {
				s.close()
				return out
			}
			// precondition: the nodes that can run are a majority of the voters of EVERY configuration one of them
			// may be operating on (latest and committed configuration of each node that takes part; what only the
			// node staying away knows - e.g. a configuration entry it appended and sent to nobody - binds nobody)
			enough, newest := progressPossible(s, exclude)
			if exclude >= 0 {
				if _, member := newest.Nodes[uint64(exclude+1)]; !member {
					s.close()
					continue
				}
			}
			if !enough {
				s.close()
				continue
			}
			s.exclude = exclude
			nv := len(s.w.led.viol)
			_, problem := fairContinuation(s, 40, exclude)
			if problem != "" {
				// messages that were in flight have landed meanwhile: a configuration entry received during the
				// continuation can leave the nodes that run without a majority of a configuration one of them holds
				// now (e.g. the absent leader's uncommitted demotion reached the node it demotes) - no progress is
				// owed then
				if ok, _ := progressPossible(s, exclude); !ok {
					problem = ""
				}
			}
			if problem != "" {
				key := "no-progress"
				if len(problem) > 5 && problem[:5] == "lasso" {
					key = "no-progress-lasso"
				}
				who := "all nodes back"
				if exclude >= 0 {
					who = fmt.Sprintf("node %d staying away", exclude+1)
					key += ":one-node-away"
				}
				out = append(out, simViolation{Oracle: "progress", Key: key, Desc: fmt.Sprintf("fair continuation (%s) after %v: %s", who, histStrings(hist), problem), Full: append([]simEvent(nil), s.hist...),
					Final: "progress", Prefix: append([]simEvent{}, hist...)})
			}
			// safety oracles keep running during the continuation
			for _, v := range s.w.led.viol[nv:] {
				v.Full = append([]simEvent(nil), s.hist...)
				out = append(out, v)
			}
			s.close()
			if len(out) > 0 {
				break
			}
		}
		return out
	}
}

func progressScenarios(tier string) []*simScenario {
	dev := 2
	if tier == "thorough" {
		dev = 3
	}
	bases := []*simScenario{
		scenElect([]uint64{1, 2, 3}, nil, 3, dev, 1),
		scenRepl(replSeedByName("isolated-tail"), dev, true, 1, 1, 4),
		scenRepl(replSeedByName("divergent"), dev, true, 1, 1, 4),
		scenRepl(replSeedByName("longtail"), dev, true, 1, 1, 4),
		scenMember(memberSeedByName("3v"), dev, 1, 0, true, nil, 0),
		scenMember(memberSeedByName("promoting"), dev, 1, 0, true, nil, 0),
		scenSnap(snapSeeds[snapSeedIndex("lagging")], dev, true, true, 1),
		scenTransfer(xferSeeds[0], dev, true),
	}
	var out []*simScenario
	for _, b := range bases {
		sc := cloneScenario(b)
		sc.Name = "progress-" + b.Name
		sc.Menu.OrderCost = true
		sc.Menu.Partitions = false
		sc.Final = "progress"
		sc.Opt.Disconnects = false
		out = append(out, sc)
	}
	return out
}

func init() {
	for _, sc := range progressScenarios("quick") {
		simScenarios[sc.Name] = sc
	}
	c17 := &simCheckSpec{Prop: "C17", Oracles: []string{"progress", "stability"},
		Scenarios: progressScenarios,
		Budget: func(tier string) time.Duration {
			if tier == "thorough" {
				return 40 * time.Minute
			}
			return 270 * time.Second
		},
		MustReach: []string{"leaders"},
		Assume: []string{
			"liveness is decided as step-bounded progress under ONE fair scheduler (all internal events to quiescence, one heartbeat on every idle replication stream, then one timeout, round-robin over the nodes whose timer is armed; at most 40 rounds), started from every explored state after faults stop and down nodes restart; a violation is a repeated state (lasso) or the round bound; this is not a real-time bound and not all fair schedulers",
			"the goal is checked only when the nodes that can run are a majority of the voters of every configuration (latest or committed) held by one of them (nodes that could not restart or removed themselves are outside; a configuration known only to the node staying away binds nobody)",
		},
	}
	vkChecks["C17"] = func(args []string) int { return runSimCheck(c17, args) }
}
