//go:build verif
// +build verif

package raft

// Adversarial continuations (final checks of the C01/C02 scenarios).  From an
// explored state in which a node just became leader, or an index was just
// committed, a fixed hostile schedule is executed on a fresh replay: it tries
// to get a *second* leader elected in the same term, respectively a node that
// lacks a committed entry elected leader.  Only faults the properties allow
// are used (partitions, timeouts, message delays).  Nothing is reported unless
// the real code really ends up violating the ledger oracle, so the
// continuation can only add true violations (with the complete event history
// as witness); it does not replace the exhaustive exploration, it extends its
// reach behind the deviation bound in one deterministic direction.

import (
	"fmt"
	"sort"
	"strings"
)

// electOnly fires an election timeout at n and delivers only vote traffic.
func (s *simState) electOnly(n *simNode) error { return s.electVotes(n, true) }

// electVotes delivers vote traffic until n leads; with timeout it first fires n's election timeout.
func (s *simState) electVotes(n *simNode, timeout bool) error {
	w := s.w
	if !n.up || n.r.state == Leader {
		return nil
	}
	if timeout {
		if !n.r.timer.active {
			return nil
		}
		if err := s.apply(simEvent{K: "T", N: n.idx, S: "main"}, true); err != nil {
			return err
		}
	}
	save := w.opt.NoRepl
	w.opt.NoRepl = true
	defer func() { w.opt.NoRepl = save }()
	for i := 0; i < 200 && n.up && n.r.state != Leader; i++ {
		ev := w.enabled(&simMenu{}, s.cnt)
		var pick *simEvent
		for j := range ev {
			e := ev[j]
			if e.Dev != 0 {
				continue
			}
			if e.K == "R" {
				pick = &ev[j]
				break
			}
			if e.K == "D" {
				if c := w.connByKey(e.C); c != nil {
					if p := c.peekRequest(); p != nil && p.typ == rpcVote {
						pick = &ev[j]
						break
					}
				}
			}
		}
		if pick == nil {
			return nil
		}
		if err := s.apply(*pick, true); err != nil {
			return err
		}
	}
	return nil
}

func (s *simState) isolate(n *simNode) {
	for _, o := range s.w.nodes {
		if o != n {
			a, b := n.idx, o.idx
			if a > b {
				a, b = b, a
			}
			if !s.w.blocked[[2]int{a, b}] {
				_ = s.apply(simEvent{K: "PB", N: a, A: b}, true)
			}
		}
	}
}

func (s *simState) healAll() {
	var pairs [][2]int
	for p, b := range s.w.blocked {
		if b {
			pairs = append(pairs, p)
		}
	}
	sort.Slice(pairs, func(i, j int) bool {
		return pairs[i][0] < pairs[j][0] || (pairs[i][0] == pairs[j][0] && pairs[i][1] < pairs[j][1])
	})
	for _, p := range pairs {
		_ = s.apply(simEvent{K: "PH", N: p[0], A: p[1]}, true)
	}
}

func (s *simState) deliverDisconnects() {
	w := s.w
	for i := 0; i < 50; i++ {
		save := w.opt.Disconnects
		w.opt.Disconnects = true
		ev := w.enabled(&simMenu{}, s.cnt)
		w.opt.Disconnects = save
		var pick *simEvent
		for j := range ev {
			if ev[j].K == "DC" {
				pick = &ev[j]
				break
			}
		}
		if pick == nil {
			return
		}
		if err := s.apply(*pick, true); err != nil {
			return
		}
	}
}

func moreUpToDate(a, b *Raft) bool {
	return a.lastLogTerm > b.lastLogTerm || (a.lastLogTerm == b.lastLogTerm && a.lastLogIndex > b.lastLogIndex)
}

// adversaryTargets lists the continuations worth trying from the state s.
type advTarget struct {
	kind string // "second-leader" | "leader-without-committed"
	node int
}

func adversaryTargets(s *simState) []advTarget {
	w := s.w
	led := w.led
	var out []advTarget
	for _, x := range w.nodes {
		if !x.up || x.r.state != Leader {
			continue
		}
		for _, z := range w.nodes {
			if z == x || !z.up || z.r.state == Leader || !z.r.configs.Latest.isVoter(z.r.nid) {
				continue
			}
			if z.r.term < x.r.term || (z.r.term == x.r.term && z.r.state == Candidate) {
				out = append(out, advTarget{"second-leader", z.idx})
			}
		}
	}
	for _, b := range w.nodes {
		if !b.up || b.r.state == Leader || !b.r.configs.Latest.isVoter(b.r.nid) {
			continue
		}
		lacks := false
		for i, c := range led.committed {
			if i <= b.r.snaps.index {
				continue
			}
			if e, ok := led.entryAt(b, i); !ok || e.term != c.Term {
				lacks = true
				break
			}
		}
		if lacks {
			out = append(out, advTarget{"leader-without-committed", b.idx})
			// the same, but nobody is spared the request: only the current leaders are cut off, so the
			// voters that hold the committed entries must themselves refuse
			out = append(out, advTarget{"leader-without-committed-open", b.idx})
		}
	}
	return out
}

func runAdversary(sc *simScenario, hist []simEvent) []simViolation {
	s0, err := replayExpected(sc, hist)
	if err != nil {
		s0.close()
		return nil
	}
	targets := adversaryTargets(s0)
	base := len(s0.w.led.viol)
	s0.close()
	var out []simViolation
	for _, tg := range targets {
		s, err := replayExpected(sc, hist)
		if err != nil {
			s.close()
			continue
		}
		w := s.w
		z := w.nodes[tg.node]
		switch tg.kind {
		case "second-leader":
			// cut the current leaders off, let the others forget them, then z campaigns
			var term uint64
			for _, x := range w.nodes {
				if x.up && x.r.state == Leader {
					term = x.r.term
					s.isolate(x)
				}
			}
			s.deliverDisconnects()
			if z.r.state == Candidate && z.r.term == term {
				// its election of that term is still under way: let its vote requests through
				_ = s.electVotes(z, false)
			}
			for i := 0; i < 6 && z.up && z.r.state != Leader && z.r.term <= term; i++ {
				if z.r.term == term && z.r.state != Candidate {
					break // its next election would already be in a later term
				}
				if err := s.electOnly(z); err != nil {
					break
				}
			}
		case "leader-without-committed-open":
			for _, x := range w.nodes {
				if x != z && x.up && x.r.state == Leader {
					s.isolate(x)
				}
			}
			s.deliverDisconnects()
			for i := 0; i < 5 && z.up && z.r.state != Leader; i++ {
				if err := s.electOnly(z); err != nil {
					break
				}
			}
		case "leader-without-committed":
			// cut off every node whose log would make it refuse z, then z campaigns
			for _, o := range w.nodes {
				if o != z && o.up && moreUpToDate(o.r, z.r) {
					s.isolate(o)
				}
			}
			s.deliverDisconnects()
			for i := 0; i < 5 && z.up && z.r.state != Leader; i++ {
				if err := s.electOnly(z); err != nil {
					break
				}
			}
		}
		if strings.HasPrefix(tg.kind, "leader-without-committed") && z.up && z.r.state == Leader && len(w.led.viol) > base {
			// the hostile schedule worked: let the cluster run on under the new leader (partitions healed, one
			// more client update) so that the consequences for state machines and clients are observed as well
			s.healAll()
			_ = s.runFree(2000, nil)
			if z.up && z.r.state == Leader {
				if err := s.apply(simEvent{K: "CL", N: z.idx, S: "update"}, true); err == nil {
					_ = s.runFree(2000, nil)
				}
			}
		}
		for _, v := range w.led.viol[base:] {
			if v.Oracle == "leader" || v.Oracle == "commit" || v.Oracle == "vote" || v.Oracle == "apply" || v.Oracle == "client" || v.Oracle == "match" {
				v.Desc = fmt.Sprintf("%s [found by the adversarial continuation %s(n%d) after the explored history %v]", v.Desc, tg.kind, tg.node+1, histStrings(hist))
				v.Full = append([]simEvent(nil), s.histAll()...)
				out = append(out, v)
			}
		}
		s.close()
	}
	return out
}

// histAll returns seed-relative history plus continuation events.
func (s *simState) histAll() []simEvent { return s.hist }
