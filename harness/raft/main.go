// +build verif

package raft

import (
	"fmt"
	"os"
	"sort"
)

// vkChecks maps a property id to its check entry point (registered by the
// check files' init functions).  Each takes the remaining command line.
var vkChecks = map[string]func(args []string) int{}

// vkCommands are auxiliary sub-commands (workers, replay, ...).
var vkCommands = map[string]func(args []string) int{}

// VerifMain is the entry point of the injected verification harness.
func VerifMain(args []string) int {
	testMode = false
	if len(args) >= 1 && args[0] != "worker" {
		// one scratch root per top-level run: everything a killed worker
		// leaves behind goes with it
		cleanup := vkScratchRoot()
		defer cleanup()
	}
	if len(args) >= 2 && args[0] == "check" {
		if fn, ok := vkChecks[args[1]]; ok {
			return fn(args[2:])
		}
		fmt.Fprintln(os.Stderr, "unknown property", args[1])
		return 2
	}
	if len(args) >= 1 {
		if fn, ok := vkCommands[args[0]]; ok {
			return fn(args[1:])
		}
	}
	var ids []string
	for id := range vkChecks {
		ids = append(ids, id)
	}
	sort.Strings(ids)
	fmt.Fprintln(os.Stderr, "usage: vraft check <id> [--tier quick|thorough]; ids:", ids)
	return 2
}
