// +build verif

package raft

// Recording state machine and task bookkeeping of the E-SIM explorer.

import (
	"bytes"
	"encoding/json"
	"fmt"
	"io"
	"io/ioutil"
	"strings"
	"sync"
)

// recFSM is an append-only list of update payload ids.  Every call is
// reported to the ledger (oracle L-apply).
type recFSM struct {
	n       *simNode
	inc     int
	mu      sync.Mutex
	state   []string
	updates int // number of Update calls in this incarnation
}

func newRecFSM(n *simNode) *recFSM {
	return &recFSM{n: n, inc: n.inc + 1}
}

func simPayloadID(cmd []byte) string {
	s := string(cmd)
	if i := strings.IndexByte(s, '|'); i >= 0 {
		return s[:i]
	}
	return s
}

func (f *recFSM) Update(cmd []byte) interface{} {
	f.mu.Lock()
	id := simPayloadID(cmd)
	f.state = append(f.state, id)
	f.updates++
	pos := len(f.state)
	f.mu.Unlock()
	f.n.w.led.onFSMUpdate(f.n, id, pos)
	return pos
}

func (f *recFSM) Read(cmd interface{}) interface{} {
	f.mu.Lock()
	defer f.mu.Unlock()
	return append([]string(nil), f.state...)
}

func (f *recFSM) snapshotState() []string {
	f.mu.Lock()
	defer f.mu.Unlock()
	return append([]string(nil), f.state...)
}

type recFSMState struct{ state []string }

func (s recFSMState) Persist(w io.Writer) error {
	b, _ := json.Marshal(s.state)
	_, err := w.Write(b)
	return err
}
func (s recFSMState) Release() {}

func (f *recFSM) Snapshot() (FSMState, error) {
	return recFSMState{f.snapshotState()}, nil
}

func (f *recFSM) Restore(r io.Reader) error {
	b, err := ioutil.ReadAll(r)
	if err != nil {
		return err
	}
	var st []string
	if len(bytes.TrimSpace(b)) > 0 {
		if err := json.Unmarshal(b, &st); err != nil {
			return err
		}
	}
	f.mu.Lock()
	f.state = st
	f.mu.Unlock()
	f.n.w.led.onFSMRestore(f.n, st)
	return nil
}

// ---------------------------------------------------------------- tasks

type simTask struct {
	id      int
	kind    string // update, read, barrier, dirty, config, transfer, snapshot, info, waitstable
	node    int
	inc     int
	payload string
	t       Task
	inner   *task
	invoke  int // logical clock at submission
	ret     int // logical clock at which completion was observed (-1: pending)
	replies int // number of task.reply calls observed through the hook
	results []string

	// context captured at submission (for the client-semantics oracles)
	stateAtInvoke State
	termAtInvoke  uint64
	acceptedIndex uint64 // log index assigned if accepted (0: none)
	checked       bool
	ghost         bool // the answering node died inside the transition that produced the reply: the client never saw it
}

var (
	simTaskMu  sync.Mutex
	simTaskMap = map[*task]*simTask{}
)

func simReplyHook(t *task, result interface{}) {
	simTaskMu.Lock()
	st := simTaskMap[t]
	if st != nil {
		st.replies++
		st.results = append(st.results, simResultString(result))
	}
	simTaskMu.Unlock()
}

func simResultString(v interface{}) string {
	switch v := v.(type) {
	case nil:
		return "nil"
	case NotLeaderError:
		return fmt.Sprintf("NotLeader{leader:%d lost:%v}", v.Leader.ID, v.Lost)
	case error:
		return "err:" + v.Error()
	case []string:
		return "state:" + strings.Join(v, ",")
	case Config:
		return fmt.Sprintf("config@%d", v.Index)
	case Info:
		return "info"
	default:
		return fmt.Sprintf("%v", v)
	}
}

func (w *world) track(kind string, n *simNode, payload string, t Task, inner *task) *simTask {
	st := &simTask{id: len(w.tasks), kind: kind, node: n.idx, inc: n.inc, payload: payload, t: t, inner: inner,
		invoke: w.clock, ret: -1, stateAtInvoke: n.r.state, termAtInvoke: n.r.term}
	w.tasks = append(w.tasks, st)
	simTaskMu.Lock()
	simTaskMap[inner] = st
	simTaskMu.Unlock()
	return st
}

func (w *world) untrackAll() {
	simTaskMu.Lock()
	for _, st := range w.tasks {
		delete(simTaskMap, st.inner)
	}
	simTaskMu.Unlock()
}

// pollTasks records the return time of tasks that completed.
func (w *world) pollTasks() {
	for _, st := range w.tasks {
		if st.ret < 0 && !st.ghost {
			select {
			case <-st.t.Done():
				st.ret = w.clock
				w.led.onTaskDone(st)
			default:
			}
		}
	}
}

func innerTask(t Task) *task {
	switch t := t.(type) {
	case *newEntry:
		return t.task
	case infoTask:
		return t.task
	case changeConfig:
		return t.task
	case waitForStableConfig:
		return t.task
	case takeSnapshot:
		return t.task
	case transferLdr:
		return t.task
	case inspect:
		return t.task
	}
	return nil
}
