// +build verif

package raft

// C05 — oracles.  Only what the statement demands:
//  (a) a reply `success` to a vote request (term T, candidate S) => a fresh
//      openValue(dir, ".term") at that instant yields exactly (T,S);
//  (b) per voter, across restarts, the set of candidates granted in one term
//      has at most one element (a vote the voter state already holds, and the
//      self vote of an election, count as grants);
//  (c) the term carried by replies and the term on disk never decrease along a
//      path, including across a crash at any point;
//  (d) a crash image taken after a `success` reply reopens to exactly (T,S).
// Replies that were computed after a crash point inside the handler were never
// sent and are not part of the ledger of that crash path.

import (
	"fmt"
	"strings"
)

type c05Grant struct {
	Cand        uint64
	Incarnation int
}

type c05Ledger struct {
	Granted     map[uint64][]c05Grant // term -> grants that left the node
	MaxReported uint64                // highest term carried by a reply that left the node
	DiskTerm    uint64                // highest term seen on disk
	DiskVote    uint64                // last (term,vote) seen on disk
	LastDiskT   uint64
	Incarnation int
	LastGrant   *[2]uint64 // set when the last reply was success: (T,S)
	Poisoned    bool       // a violation was reported on this path: what follows is consequence, not evidence
	Trace       []string
}

// c05NewLedger: the vote the voter state already holds was granted by an
// earlier incarnation.  Storage-level runs (setter layer) have no replies and
// no grants: the setters may legally be told to clear a vote.
func c05NewLedger(v c05Voter, setter bool) *c05Ledger {
	L := &c05Ledger{Granted: map[uint64][]c05Grant{}, MaxReported: v.Term, DiskTerm: v.Term, DiskVote: v.VotedFor, LastDiskT: v.Term}
	if v.VotedFor != 0 && !setter {
		L.Granted[v.Term] = []c05Grant{{v.VotedFor, 0}}
	}
	return L
}

func (L *c05Ledger) clone() *c05Ledger {
	c := *L
	c.Granted = make(map[uint64][]c05Grant, len(L.Granted))
	for t, g := range L.Granted {
		c.Granted[t] = append([]c05Grant(nil), g...)
	}
	if L.LastGrant != nil {
		x := *L.LastGrant
		c.LastGrant = &x
	}
	c.Trace = append([]string(nil), L.Trace...)
	return &c
}

// grant records a grant; returns the other candidate already granted in that
// term (0 if none) and whether that earlier grant was made by another incarnation.
func (L *c05Ledger) grant(term, cand uint64) (other uint64, acrossRestart bool) {
	for _, g := range L.Granted[term] {
		if g.Cand != cand {
			other, acrossRestart = g.Cand, g.Incarnation != L.Incarnation
		}
	}
	for _, g := range L.Granted[term] {
		if g.Cand == cand {
			return
		}
	}
	L.Granted[term] = append(L.Granted[term], c05Grant{cand, L.Incarnation})
	return
}

// c05Pre is the node's own view right before an event.
type c05Pre struct {
	Term, VotedFor, Leader uint64
	State                  State
	LogIndex, LogTerm      uint64
}

func c05PreOf(r *Raft) c05Pre {
	return c05Pre{r.term, r.votedFor, r.leader, r.state, r.lastLogIndex, r.lastLogTerm}
}

// c05Class names the minimal-witness class of an event in its pre-state; it is
// the second half of every violation key.
func c05Class(pre c05Pre, ev *c05Event, fault bool) string {
	rel := func() string {
		switch {
		case ev.Term < pre.Term:
			return "lower-term"
		case ev.Term > pre.Term:
			return "higher-term"
		}
		return "same-term"
	}
	switch ev.Type {
	case "vote":
		switch {
		case fault:
			return "persist-error"
		case !ev.Transfer && pre.Leader != 0 && ev.Src == pre.Leader:
			return "src==known-leader"
		case ev.Term < pre.Term:
			return "stale-term"
		case ev.Term > pre.Term:
			return "higher-term"
		case pre.VotedFor == 0:
			return "first-vote-in-term"
		case pre.VotedFor == ev.Src:
			return "revote-same-candidate"
		}
		return "voted-other-in-term"
	case "heartbeat":
		if fault {
			return "heartbeat,persist-error"
		}
		return "heartbeat," + rel()
	case "election":
		if fault {
			return "election,persist-error"
		}
		return "election"
	case "setTerm", "setVotedFor":
		s := ev.Type + "," + rel()
		if ev.Type == "setVotedFor" && ev.Term == pre.Term {
			if ev.Src == pre.VotedFor {
				s += ",same-vote"
			} else {
				s += ",vote-changes"
			}
		}
		if fault {
			s += ",persist-error"
		}
		return s
	}
	return ev.Type
}

type c05Emit func(key, desc string)

func c05EvString(ev *c05Event) string {
	switch ev.Type {
	case "vote":
		return fmt.Sprintf("voteReq{term:%d src:%s lastLog:(%d,%d) transfer:%v}", ev.Term, c05Name(ev.Src), ev.LastLogIndex, ev.LastLogTerm, ev.Transfer)
	case "heartbeat":
		return fmt.Sprintf("appendReq{term:%d src:%s entries:0}", ev.Term, c05Name(ev.Src))
	case "election":
		return fmt.Sprintf("startElection{transfer:%v}", ev.Transfer)
	case "setTerm":
		return fmt.Sprintf("storage.setTerm(%d)", ev.Term)
	case "setVotedFor":
		return fmt.Sprintf("storage.setVotedFor(%d,%s)", ev.Term, c05Name(ev.Src))
	}
	return ev.Type
}

func c05PreString(p c05Pre) string {
	return fmt.Sprintf("{term:%d votedFor:%s leader:%s state:%c log:(%d,%d)}", p.Term, c05Name(p.VotedFor), c05Name(p.Leader), byte(p.State), p.LogIndex, p.LogTerm)
}

func c05DiskString(t, v uint64, err error) string {
	if err != nil {
		return "unreadable(" + err.Error() + ")"
	}
	return fmt.Sprintf("(%d,%s)", t, c05Name(v))
}

// judge evaluates the oracles for one executed event.  mem is the node's
// in-memory (term, votedFor) after the event, (dt,dv,derr) a fresh read of the
// directory after the event.
func (L *c05Ledger) judge(pre c05Pre, ev *c05Event, fault bool, o *c05Outcome, memT, memV uint64, dt, dv uint64, derr error, emit0 c05Emit) {
	cls := c05Class(pre, ev, fault)
	L.LastGrant = nil
	if o.Skipped || L.Poisoned {
		return
	}
	hit := false
	emit := func(key, desc string) { hit = true; emit0(key, desc) }
	defer func() {
		if hit {
			L.Poisoned = true
		}
	}()
	where := fmt.Sprintf("voter %s, %s", c05PreString(pre), c05EvString(ev))
	if fault {
		where += " [rename of the term file fails]"
	}
	if derr != nil {
		emit("term-file-unreadable:"+cls, where+": the directory cannot be read back: "+derr.Error())
	}

	grantCheck := func(T, S uint64) {
		if derr == nil && (dt != T || dv != S) {
			emit("grant-not-durable:"+cls, fmt.Sprintf("%s: reply success (term %d in reply) but the directory holds %s, not (%d,%s)",
				where, o.Term, c05DiskString(dt, dv, nil), T, c05Name(S)))
		}
		if other, across := L.grant(T, S); other != 0 {
			k := "two-grants-in-term:" + cls
			if across {
				k += ",across-restart"
			}
			emit(k, fmt.Sprintf("%s: vote for term %d granted to %s, but this voter already granted term %d to %s", where, T, c05Name(S), T, c05Name(other)))
		}
		L.LastGrant = &[2]uint64{T, S}
	}

	switch ev.Type {
	case "vote":
		if o.Replied && o.Result == success {
			grantCheck(ev.Term, ev.Src)
		}
	case "election":
		for _, wo := range o.Wire {
			if wo.diskErr != nil || wo.diskTerm != wo.req.term || wo.diskVote != wo.req.src || wo.req.src != c05Self {
				emit("request-before-durable:"+cls, fmt.Sprintf("%s: vote request (term %d, src %s) was on the wire while the directory held %s",
					where, wo.req.term, c05Name(wo.req.src), c05DiskString(wo.diskTerm, wo.diskVote, wo.diskErr)))
			}
		}
		if !o.Panicked {
			want := pre.Term + 1
			if o.Post == nil {
				emit("request-before-durable:"+cls, fmt.Sprintf("%s: startElection returned without passing the persisting branch of setVotedFor", where))
			} else if o.Post.diskErr != nil || o.Post.diskTerm != want || o.Post.diskVote != c05Self {
				emit("request-before-durable:"+cls, fmt.Sprintf("%s: when setVotedFor(%d,self) was about to return the directory held %s",
					where, want, c05DiskString(o.Post.diskTerm, o.Post.diskVote, o.Post.diskErr)))
			}
		}
		if o.Replied && o.Result == success {
			if o.Term <= pre.Term {
				emit("election-term-not-incremented:"+cls, fmt.Sprintf("%s: election started for term %d", where, o.Term))
			}
			grantCheck(o.Term, c05Self)
		}
	case "setTerm", "setVotedFor":
		oldT, oldV := L.LastDiskT, L.DiskVote
		wantT, wantV := ev.Term, ev.Src
		if ev.Type == "setTerm" {
			wantV = 0
			if ev.Term == pre.Term {
				wantT, wantV = oldT, oldV
			}
		}
		if derr == nil {
			if o.Panicked {
				if dt != oldT || dv != oldV {
					emit("setter-partial-write:"+cls, fmt.Sprintf("%s: panicked (%s) but the directory changed from %s to %s", where, o.PanicMsg, c05DiskString(oldT, oldV, nil), c05DiskString(dt, dv, nil)))
				}
			} else {
				if dt != wantT || dv != wantV {
					emit("setter-not-durable:"+cls, fmt.Sprintf("%s: returned normally but the directory holds %s, not (%d,%s)", where, c05DiskString(dt, dv, nil), wantT, c05Name(wantV)))
				}
				if memT != dt || memV != dv {
					emit("setter-memory-diverges:"+cls, fmt.Sprintf("%s: in memory (%d,%s), on disk %s", where, memT, c05Name(memV), c05DiskString(dt, dv, nil)))
				}
			}
		}
	}

	if o.Replied {
		if o.Term < L.MaxReported {
			emit("term-regressed:reply:"+cls, fmt.Sprintf("%s: reply carries term %d after term %d was reported earlier", where, o.Term, L.MaxReported))
		} else {
			L.MaxReported = o.Term
		}
	}
	if derr == nil {
		if dt < L.DiskTerm {
			emit("term-regressed:disk:"+cls, fmt.Sprintf("%s: term on disk went from %d to %d", where, L.DiskTerm, dt))
		} else {
			L.DiskTerm = dt
		}
		L.LastDiskT, L.DiskVote = dt, dv
	}
}

// c05Image is a copy of the directory at a crash instant with the ledger of
// what had left the node by then.
type c05Image struct {
	At    int
	Point string
	Dir   string
	L     *c05Ledger
	Cls   string
	Where string
	// storage-level events only: the two values the image may legally hold
	Setter     bool
	OldT, OldV uint64
	NewT, NewV uint64
}

// judgeReopen evaluates the oracles on a restarted node (fresh New on a crash image).
func (L *c05Ledger) judgeReopen(img *c05Image, r *Raft, emit0 c05Emit) {
	if L.Poisoned {
		return
	}
	hit := false
	emit := func(key, desc string) { hit = true; emit0(key, desc) }
	defer func() {
		if hit {
			L.Poisoned = true
		}
	}()
	where := fmt.Sprintf("%s; crash at %q, restart", img.Where, img.Point)
	point := img.Point
	rt := rpcVote.createResp(r, success, nil).getTerm()
	if rt < L.MaxReported {
		emit("term-regressed:restart:"+point+","+img.Cls, fmt.Sprintf("%s: the restarted node reports term %d, it reported %d before the crash", where, rt, L.MaxReported))
	}
	if r.term < L.DiskTerm {
		emit("term-regressed:disk-restart:"+point+","+img.Cls, fmt.Sprintf("%s: restarted with term %d, the directory held %d earlier", where, r.term, L.DiskTerm))
	}
	if point == "after" && L.LastGrant != nil {
		if r.term != L.LastGrant[0] || r.votedFor != L.LastGrant[1] {
			emit("grant-lost-on-restart:"+img.Cls, fmt.Sprintf("%s: success was replied for (%d,%s), the restarted node holds (%d,%s)",
				where, L.LastGrant[0], c05Name(L.LastGrant[1]), r.term, c05Name(r.votedFor)))
		}
	} else if g := L.Granted[r.term]; len(g) > 0 {
		ok := false
		for _, x := range g {
			if x.Cand == r.votedFor {
				ok = true
			}
		}
		if !ok {
			emit("grant-lost-on-restart:"+point+","+img.Cls, fmt.Sprintf("%s: term %d was granted to %s, the restarted node holds (%d,%s)",
				where, r.term, c05Name(g[0].Cand), r.term, c05Name(r.votedFor)))
		}
	}
	if img.Setter {
		isOld := r.term == img.OldT && r.votedFor == img.OldV
		isNew := r.term == img.NewT && r.votedFor == img.NewV
		bad := false
		switch point {
		case "term.pre", "vote.pre", "before":
			bad = !isOld
		case "value.renamed", "value.synced", "term.post", "vote.post", "after", "died":
			bad = !isNew
		}
		if bad || (!isOld && !isNew) {
			emit("setter-crash-image:"+point+","+img.Cls, fmt.Sprintf("%s: image holds (%d,%s); old value (%d,%s), new value (%d,%s)",
				where, r.term, c05Name(r.votedFor), img.OldT, c05Name(img.OldV), img.NewT, c05Name(img.NewV)))
		}
	}
	L.Incarnation++
	L.LastGrant = nil
	if r.term > L.DiskTerm {
		L.DiskTerm = r.term
	}
	L.LastDiskT, L.DiskVote = r.term, r.votedFor
}

// ---------------------------------------------------------------- textbook reference (notes only)

// c05RefGrant is RequestVote of the Raft paper (no leader stickiness, no
// transfer flag): used for notes in the evidence, never for a verdict.
func c05RefGrant(pre c05Pre, ev *c05Event) bool {
	if ev.Term < pre.Term {
		return false
	}
	voted := pre.VotedFor
	if ev.Term > pre.Term {
		voted = 0
	}
	if voted != 0 && voted != ev.Src {
		return false
	}
	if pre.LogTerm > ev.LastLogTerm || (pre.LogTerm == ev.LastLogTerm && pre.LogIndex > ev.LastLogIndex) {
		return false
	}
	return true
}

func c05CrashString(c *c05Crash) string {
	if c == nil {
		return "none"
	}
	return fmt.Sprintf("event %d @ %s", c.At, c.Point)
}

func c05CaseString(cs *c05Case) string {
	var ev []string
	for i := range cs.Events {
		ev = append(ev, c05EvString(&cs.Events[i]))
	}
	s := fmt.Sprintf("voter{term:%d votedFor:%s leader:%s state:%s log:(%d,%d)} events[%s] crash:%s",
		cs.Voter.Term, c05Name(cs.Voter.VotedFor), c05Name(cs.Voter.Leader), cs.Voter.State, cs.Voter.LogIndex, cs.Voter.LogTerm,
		strings.Join(ev, " ; "), c05CrashString(cs.Crash))
	if cs.Fault != nil {
		s += fmt.Sprintf(" fault:%s@%d", cs.Fault.Kind, cs.Fault.At)
	}
	return s
}
