// +build verif

package raft

import "time"

// Scenario "elect" (C01): elections under every interleaving of timeouts,
// vote requests/replies, first heartbeats, step-downs, disconnect
// notifications, crashes and restarts.

func scenElect(voters []uint64, nonvoters []uint64, maxTerm uint64, dev int, crashes int) *simScenario {
	n := len(voters) + len(nonvoters)
	sc := &simScenario{
		Name: "elect-" + joinU(voters),
		Opt:  worldOpt{Nodes: n, Voters: voters, Nonvoters: nonvoters, EagerFSM: true, EagerLU: true, EagerConnect: true, Disconnects: true},
		Menu: simMenu{Timeouts: true, MaxTerm: maxTerm, Drops: true, Dups: true, Crashes: crashes > 0},
		MaxDev:  dev,
		Crashes: crashes,
	}
	if len(nonvoters) > 0 {
		sc.Name += "+nv" + joinU(nonvoters)
	}
	return sc
}

func init() {
	simScenarios["elect"] = scenElect([]uint64{1, 2, 3}, nil, 3, 2, 0)
	spec := &simCheckSpec{
		Prop:    "C01",
		Oracles: []string{"leader", "vote"},
		Scenarios: func(tier string) []*simScenario {
			if tier == "thorough" {
				return []*simScenario{
					scenElect([]uint64{1, 2, 3}, nil, 4, 4, 1),
					scenElect([]uint64{1, 2}, nil, 4, 4, 1),
					scenElect([]uint64{1, 2, 3}, []uint64{4}, 3, 3, 0),
				}
			}
			return []*simScenario{scenElect([]uint64{1, 2, 3}, nil, 3, 3, 1)}
		},
		Budget: func(tier string) time.Duration {
			if tier == "thorough" {
				return 30 * time.Minute
			}
			return 150 * time.Second
		},
		MustReach: []string{"leaders", "elections"},
	}
	vkChecks["C01"] = func(args []string) int { return runSimCheck(spec, args) }
}
