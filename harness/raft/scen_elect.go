//go:build verif
// +build verif

package raft

import (
	"fmt"
	"time"
)

// Scenario "elect" (C01): elections under every interleaving of timeouts,
// vote requests/replies, first heartbeats, step-downs, disconnect
// notifications, crashes and restarts.

func scenElect(voters []uint64, nonvoters []uint64, maxTerm uint64, dev int, crashes int) *simScenario {
	n := len(voters) + len(nonvoters)
	sc := &simScenario{
		Name:    "elect-" + joinU(voters),
		Opt:     worldOpt{Nodes: n, Voters: voters, Nonvoters: nonvoters, EagerFSM: true, EagerLU: true, EagerConnect: true, Disconnects: true},
		Menu:    simMenu{Timeouts: true, MaxTerm: maxTerm, Drops: true, Dups: true, Crashes: crashes > 0},
		MaxDev:  dev,
		Crashes: crashes,
		Final:   "adversary",
	}
	if len(nonvoters) > 0 {
		sc.Name += "+nv" + joinU(nonvoters)
	}
	return sc
}

// seeds of the election scenarios: non-initial worlds built by a scripted prefix
func scenElectSeed(name string, script []string, maxTerm uint64, dev int, orderCost bool) *simScenario {
	sc := scenElect([]uint64{1, 2, 3}, nil, maxTerm, dev, 1)
	sc.Name = "elect-" + name
	sc.Script = script
	sc.Menu.OrderCost = orderCost
	sc.Menu.Dups = false
	if orderCost {
		sc.Name += "-delaybounded"
	}
	return sc
}

// votes-only variant: replication streams never run (all appends delayed
// beyond the horizon), which leaves the interleavings of timeouts, vote
// requests/replies, disconnect notifications, crashes and restarts
func scenElectVotesOnly(name string, script []string, maxTerm uint64, dev int) *simScenario {
	sc := scenElectSeed(name, script, maxTerm, dev, false)
	sc.Name += "-votesonly"
	sc.Opt.NoRepl = true
	return sc
}

var (
	// established leader n1; the followers believe in it
	electSeedLeader = []string{"T:1", "run"}
	// n1 holds one entry more than the others (appended while cut off); nobody knows a leader
	electSeedLongLog = []string{"T:1", "run", "block:1:2", "block:1:3", "update:1", "run", "disc", "heal:1:2", "heal:1:3"}
	// ex-leader n1 that just stepped down (lost contact with both followers, which still believe in it)
	electSeedStepdown = []string{"T:1", "run", "block:1:2", "block:1:3", "runnodc", "heal:1:2", "heal:1:3"}
)

// electSeedRevote: a voter between two candidates ("a voter restarting between two candidates"): n1 (candidate of
// term 2) learnt term 3 from the refusal of candidate c and holds no vote in it; c is candidate of term 3 with its
// request to n1 in flight; the third node (cut off from c, and from n1 until now) is candidate of term 2, one
// timeout away from term 3; all stale requests have been answered.  c = 3 makes the candidate's id equal the term.
func electSeedRevote(c int) []string {
	o := 5 - c
	ci := c - 1
	return []string{"block:2:3", fmt.Sprintf("block:1:%d", o), "T:1", fmt.Sprintf("T:%d", o), fmt.Sprintf("T:%d", c), fmt.Sprintf("T:%d", c), fmt.Sprintf("heal:1:%d", o),
		fmt.Sprintf(`ev:{"k":"D","n":0,"c":"%d>0#0"}`, ci), fmt.Sprintf(`ev:{"k":"R","n":%d,"c":"%d>0#0"}`, ci, ci),
		fmt.Sprintf(`ev:{"k":"D","n":%d,"c":"0>%d#0"}`, ci, ci), fmt.Sprintf(`ev:{"k":"R","n":0,"c":"0>%d#0"}`, ci)}
}

func init() {
	simScenarios["elect"] = scenElect([]uint64{1, 2, 3}, nil, 3, 2, 0)
	simScenarios["elect-stepdown"] = scenElectSeed("stepdown", electSeedStepdown, 4, 2, false)
	simScenarios["elect-leader"] = scenElectSeed("leader", electSeedLeader, 4, 2, false)
	simScenarios["elect-stepdown-votesonly"] = scenElectVotesOnly("stepdown", electSeedStepdown, 4, 3)
	simScenarios["elect-revote-votesonly"] = scenElectVotesOnly("revote", electSeedRevote(2), 4, 3)
	simScenarios["elect-revote3-votesonly"] = scenElectVotesOnly("revote3", electSeedRevote(3), 4, 3)
	simScenarios["elect-longlog-votesonly"] = scenElectVotesOnly("longlog", electSeedLongLog, 5, 3)
	spec := &simCheckSpec{
		Prop:    "C01",
		Oracles: []string{"leader", "vote"},
		Scenarios: func(tier string) []*simScenario {
			if tier == "thorough" {
				return []*simScenario{
					scenElectVotesOnly("revote", electSeedRevote(2), 4, 4),
					scenElectVotesOnly("revote3", electSeedRevote(3), 4, 4),
					scenElectSeed("stepdown", electSeedStepdown, 4, 3, false),
					scenElectSeed("leader", electSeedLeader, 4, 3, false),
					scenElectSeed("initial", nil, 4, 5, true),
					scenElect([]uint64{1, 2, 3}, nil, 4, 4, 1),
					scenElect([]uint64{1, 2}, nil, 4, 4, 1),
					scenElect([]uint64{1, 2, 3}, []uint64{4}, 3, 3, 0),
				}
			}
			return []*simScenario{
				scenElectVotesOnly("revote", electSeedRevote(2), 4, 3),
				scenElectVotesOnly("revote3", electSeedRevote(3), 4, 3),
				scenElectSeed("initial", []string{"T:1"}, 3, 2, false), // by symmetry the first timeout is at n1
				scenElectSeed("stepdown", electSeedStepdown, 4, 2, false),
				scenElectVotesOnly("stepdown", electSeedStepdown, 4, 3),
				scenElectVotesOnly("longlog", electSeedLongLog, 5, 3),
				scenElectVotesOnly("leader", electSeedLeader, 4, 3),
				scenElectSeed("leader", electSeedLeader, 4, 3, true),
				scenElectSeed("initial", nil, 3, 4, true),
			}
		},
		Budget: func(tier string) time.Duration {
			if tier == "thorough" {
				return 30 * time.Minute
			}
			return 240 * time.Second
		},
		MustReach: []string{"leaders", "elections"},
	}
	vkChecks["C01"] = func(args []string) int { return runSimCheck(spec, args) }
}
