//go:build verif
// +build verif

package raft

// Targeted reproduction of the "pipelined connection pooled with an unread
// response" defect of replication.replicate (supplementary pass for C15; found
// by C20's two-cluster worlds).
//
// The REAL node (SetIdentity + bootstrap + New + Serve, real stateLoop, real
// leader, real replication.runLoop/replicate goroutines; no verifHooks are
// installed or needed) leads a two-voter cluster whose second voter is a stub
// follower on an in-memory connection.  Per trial:
//   1. timeoutNow makes the node a candidate, the stub grants its vote, the
//      node leads and its replication to the stub reaches the pipeline;
//   2. the connection's Write is armed to hold the next AppendEntries header;
//      an UpdateFSM wakes the pipeline writer, whose write is held;
//   3. an AppendEntries request with a higher term makes the node step down:
//      leader.release closes repl.stopCh, the pipeline closes its own stopCh
//      and waits for the drain;
//   4. the held write is released: writeAppendEntriesReq returns, and the
//      writer's `select { case <-stopCh: return; case resultCh <- ...: }` has
//      both cases ready -> Go picks one uniformly;
//   5. after leader.release returned, the node's connPool is inspected: a
//      pooled connection with unread response bytes is a "leftover".
// Once, on the first leftover: the stub now DENIES votes, timeoutNow again ->
// the vote RPC takes the pooled connection and decodes the stale appendResp
// as a granted voteResp: the node leads a term in which no peer voted for it.

import (
	"bufio"
	"bytes"
	"context"
	"encoding/json"
	"errors"
	"fmt"
	"io"
	"io/ioutil"
	"net"
	"os"
	"os/exec"
	"strconv"
	"sync"
	"sync/atomic"
	"time"
)

func init() {
	vkCommands["desync"] = func(args []string) int {
		trials := 64
		for i, a := range args {
			if a == "--trials" && i+1 < len(args) {
				trials, _ = strconv.Atoi(args[i+1])
			}
		}
		asJSON := false
		for _, a := range args {
			if a == "--json" {
				asJSON = true
			}
		}
		written, leftover, detail := c15dsRun(trials)
		if asJSON {
			b, _ := json.Marshal(map[string]interface{}{"written": written, "leftover": leftover, "detail": detail})
			os.Stdout.Write(b)
			return 0
		}
		fmt.Printf("desync: trials=%d written(held write released after stop)=%d leftover(pooled conn with unread response)=%d\n", trials, written, leftover)
		for _, d := range detail {
			fmt.Println("  ", d)
		}
		if leftover > 0 {
			return 1
		}
		return 0
	}
}

// c15dsCheck runs the trials and returns: written = trials in which the
// pipelined write was held and released after the stop signal (the race was
// set up); leftover = trials after which a connection with unread response
// bytes sat in the node's connPool; detail = what happened, including the
// phantom-vote consequence (once).  The trials run in a child process (this
// binary, sub-command `desync`) so that hooks installed in the calling process
// by simulated worlds cannot touch the free-running node; without a usable
// child and with no hooks installed they run in-process.
func c15dsCheck(trials int) (written, leftover int, detail []string) {
	if trials <= 0 {
		trials = 64
	}
	if exe, err := os.Executable(); err == nil {
		cmd := exec.Command(exe, "desync", "--json", "--trials", strconv.Itoa(trials))
		var stderr bytes.Buffer
		cmd.Stderr = &stderr
		out, err := cmd.Output()
		var res struct {
			Written  int      `json:"written"`
			Leftover int      `json:"leftover"`
			Detail   []string `json:"detail"`
		}
		if err == nil && json.Unmarshal(out, &res) == nil {
			return res.Written, res.Leftover, res.Detail
		}
		detail = append(detail, fmt.Sprintf("child process failed (%v): %.300s", err, stderr.String()))
	}
	h := &verifHooks
	if h.idle != nil || h.fsm != nil || h.timer != nil || h.replTakeover != nil || h.spawn != nil || h.done != nil || h.point != nil {
		return 0, 0, append(detail, "not run in-process: verifHooks are installed in this process")
	}
	w, l, d := c15dsRun(trials)
	return w, l, append(detail, d...)
}

// ---------------------------------------------------------------- in-memory connection with a write gate

type c15dsPipe struct {
	mu       sync.Mutex
	cond     *sync.Cond
	buf      []byte
	wclosed  bool
	rclosed  bool
	rdl      time.Time
	written  int
	consumed int
}

func c15dsNewPipe() *c15dsPipe {
	p := &c15dsPipe{}
	p.cond = sync.NewCond(&p.mu)
	return p
}

type c15dsGate struct {
	armed   int32
	blocked chan struct{} // closed when a write is being held
	release chan struct{} // close to let it go
	once    sync.Once
}

type c15dsEnd struct {
	rd, wr *c15dsPipe
	gate   *c15dsGate // client end only
	name   string
}

type c15dsTimeout struct{}

func (c15dsTimeout) Error() string   { return "c15ds: i/o timeout" }
func (c15dsTimeout) Timeout() bool   { return true }
func (c15dsTimeout) Temporary() bool { return true }

func (e *c15dsEnd) Read(b []byte) (int, error) {
	p := e.rd
	p.mu.Lock()
	defer p.mu.Unlock()
	for {
		if p.rclosed {
			return 0, io.ErrClosedPipe
		}
		if len(p.buf) > 0 {
			n := copy(b, p.buf)
			p.buf = p.buf[n:]
			p.consumed += n
			return n, nil
		}
		if p.wclosed {
			return 0, io.EOF
		}
		if !p.rdl.IsZero() {
			d := time.Until(p.rdl)
			if d <= 0 {
				return 0, c15dsTimeout{}
			}
			t := time.AfterFunc(d, func() {
				p.mu.Lock()
				p.cond.Broadcast()
				p.mu.Unlock()
			})
			p.cond.Wait()
			t.Stop()
		} else {
			p.cond.Wait()
		}
	}
}

const c15dsAppendHeaderLen = 1 + 6*8 // type byte, term, src, prevLogIndex, prevLogTerm, ldrCommitIndex, numEntries

func (e *c15dsEnd) Write(b []byte) (int, error) {
	if g := e.gate; g != nil && len(b) == c15dsAppendHeaderLen && rpcType(b[0]) == rpcAppendEntries && atomic.CompareAndSwapInt32(&g.armed, 1, 2) {
		// hold this AppendEntries header: the bytes are on their way, the call has not returned
		close(g.blocked)
		select {
		case <-g.release:
		case <-time.After(10 * time.Second):
		}
	}
	p := e.wr
	p.mu.Lock()
	defer p.mu.Unlock()
	if p.wclosed {
		return 0, io.ErrClosedPipe
	}
	p.written += len(b)
	if p.rclosed {
		return len(b), nil
	}
	p.buf = append(p.buf, b...)
	p.cond.Broadcast()
	return len(b), nil
}

func (e *c15dsEnd) Close() error {
	e.rd.mu.Lock()
	e.rd.rclosed = true
	e.rd.cond.Broadcast()
	e.rd.mu.Unlock()
	e.wr.mu.Lock()
	e.wr.wclosed = true
	e.wr.cond.Broadcast()
	e.wr.mu.Unlock()
	return nil
}

type c15dsAddr string

func (a c15dsAddr) Network() string { return "c15ds" }
func (a c15dsAddr) String() string  { return string(a) }

func (e *c15dsEnd) LocalAddr() net.Addr           { return c15dsAddr(e.name) }
func (e *c15dsEnd) RemoteAddr() net.Addr          { return c15dsAddr(e.name) }
func (e *c15dsEnd) SetDeadline(t time.Time) error { return e.SetReadDeadline(t) }
func (e *c15dsEnd) SetReadDeadline(t time.Time) error {
	e.rd.mu.Lock()
	e.rd.rdl = t
	e.rd.cond.Broadcast()
	e.rd.mu.Unlock()
	return nil
}
func (e *c15dsEnd) SetWriteDeadline(t time.Time) error { return nil }

// unread: response bytes the server wrote that the client side has not taken.
func (e *c15dsEnd) unread() int {
	e.rd.mu.Lock()
	defer e.rd.mu.Unlock()
	return len(e.rd.buf)
}

type c15dsListener struct {
	addr string
	ch   chan net.Conn
	done chan struct{}
	once sync.Once
}

func (l *c15dsListener) Accept() (net.Conn, error) {
	select {
	case <-l.done:
		return nil, errors.New("c15ds: listener closed")
	case c := <-l.ch:
		return c, nil
	}
}
func (l *c15dsListener) Close() error   { l.once.Do(func() { close(l.done) }); return nil }
func (l *c15dsListener) Addr() net.Addr { return c15dsAddr(l.addr) }

type c15dsNet struct {
	mu        sync.Mutex
	listeners map[string]*c15dsListener
	gate      *c15dsGate // attached to client ends of connections dialled to the stub
	stubAddr  string
	clients   []*c15dsEnd
}

func (n *c15dsNet) listen(addr string) *c15dsListener {
	l := &c15dsListener{addr: addr, ch: make(chan net.Conn, 64), done: make(chan struct{})}
	n.mu.Lock()
	n.listeners[addr] = l
	n.mu.Unlock()
	return l
}

func (n *c15dsNet) dial(network, address string, timeout time.Duration) (net.Conn, error) {
	n.mu.Lock()
	l := n.listeners[address]
	n.mu.Unlock()
	if l == nil {
		return nil, fmt.Errorf("c15ds: dial %s: connection refused", address)
	}
	c2s, s2c := c15dsNewPipe(), c15dsNewPipe()
	cli := &c15dsEnd{rd: s2c, wr: c2s, name: address}
	srv := &c15dsEnd{rd: c2s, wr: s2c, name: address}
	if address == n.stubAddr {
		cli.gate = n.gate
		n.mu.Lock()
		n.clients = append(n.clients, cli)
		n.mu.Unlock()
	}
	select {
	case l.ch <- srv:
	case <-l.done:
		return nil, fmt.Errorf("c15ds: dial %s: connection refused", address)
	}
	return cli, nil
}

// ---------------------------------------------------------------- stub follower

type c15dsStub struct {
	denyVotes  int32
	appendReqs int64 // AppendEntries requests fully read
	appendResp int64 // and answered
	voteReqs   int64
	voteDenied int64
}

func (s *c15dsStub) serve(l *c15dsListener) {
	for {
		rwc, err := l.Accept()
		if err != nil {
			return
		}
		go s.handle(rwc)
	}
}

func (s *c15dsStub) handle(rwc net.Conn) {
	defer rwc.Close()
	r := bufio.NewReader(rwc)
	w := bufio.NewWriter(rwc)
	for {
		b, err := r.ReadByte()
		if err != nil {
			return
		}
		t := rpcType(b)
		if !t.isValid() {
			return
		}
		rq := t.createReq()
		if err := rq.decode(r); err != nil {
			return
		}
		var out response
		switch q := rq.(type) {
		case *identityReq:
			out = &identityResp{resp{term: 0, result: success}}
		case *voteReq:
			atomic.AddInt64(&s.voteReqs, 1)
			if atomic.LoadInt32(&s.denyVotes) != 0 {
				atomic.AddInt64(&s.voteDenied, 1)
				out = &voteResp{resp{term: q.term, result: alreadyVoted}}
			} else {
				out = &voteResp{resp{term: q.term, result: success}}
			}
		case *appendReq:
			for i := uint64(0); i < q.numEntries; i++ {
				if err := (&entry{}).decode(r); err != nil {
					return
				}
			}
			atomic.AddInt64(&s.appendReqs, 1)
			out = &appendResp{resp{term: q.term, result: success}, q.prevLogIndex + q.numEntries}
		default:
			return
		}
		if err := out.encode(w); err != nil {
			return
		}
		if err := w.Flush(); err != nil {
			return
		}
		if _, ok := rq.(*appendReq); ok {
			atomic.AddInt64(&s.appendResp, 1)
		}
	}
}

// ---------------------------------------------------------------- fsm

type c15dsFSM struct{}

func (c15dsFSM) Update(cmd []byte) interface{}    { return nil }
func (c15dsFSM) Read(cmd interface{}) interface{} { return nil }
func (c15dsFSM) Snapshot() (FSMState, error)      { return c15dsFSMState{}, nil }
func (c15dsFSM) Restore(r io.Reader) error        { _, err := ioutil.ReadAll(r); return err }

type c15dsFSMState struct{}

func (c15dsFSMState) Persist(w io.Writer) error { return nil }
func (c15dsFSMState) Release()                  {}

// ---------------------------------------------------------------- one trial

type c15dsTrial struct {
	held     bool // the pipelined write was held at the gate
	stopped  bool // the node stepped down while it was held
	leftover int  // unread response bytes on pooled connections afterwards
	pooled   int
	phantom  string
	err      string
}

func c15dsWait(d time.Duration, cond func() bool) bool {
	end := time.Now().Add(d)
	for time.Now().Before(end) {
		if cond() {
			return true
		}
		time.Sleep(200 * time.Microsecond)
	}
	return cond()
}

func c15dsTrialRun(wantPhantom bool) (tr c15dsTrial) {
	dir, err := ioutil.TempDir(c15dsScratchBase(), "verif-c15ds-")
	if err != nil {
		tr.err = err.Error()
		return
	}
	defer os.RemoveAll(dir)
	const nodeAddr, stubAddr = "node:1", "stub:1"
	nw := &c15dsNet{listeners: map[string]*c15dsListener{}, stubAddr: stubAddr}
	nw.gate = &c15dsGate{blocked: make(chan struct{}), release: make(chan struct{})}
	releaseGate := func() { nw.gate.once.Do(func() { close(nw.gate.release) }) }
	defer releaseGate()
	stub := &c15dsStub{}
	sl := nw.listen(stubAddr)
	defer sl.Close()
	go stub.serve(sl)

	// ---- the real node
	hb := 2 * time.Second // long: nothing happens by timeout, and the drain after a stop has 1 s
	opt := Options{HeartbeatTimeout: hb, PromoteThreshold: hb, Bandwidth: 256 << 20, LogSegmentSize: 4096, SnapshotsRetain: 1}
	if err := SetIdentity(dir, 1, 1); err != nil {
		tr.err = err.Error()
		return
	}
	store, err := openStorage(dir, opt)
	if err != nil {
		tr.err = err.Error()
		return
	}
	cfg := Config{Nodes: map[uint64]Node{1: {ID: 1, Addr: nodeAddr, Voter: true}, 2: {ID: 2, Addr: stubAddr, Voter: true}}, Index: 1, Term: 1}
	if err := store.bootstrap(cfg); err != nil {
		tr.err = err.Error()
		return
	}
	_ = store.log.Close()
	r, err := New(opt, c15dsFSM{}, dir)
	if err != nil {
		tr.err = err.Error()
		return
	}
	r.dialFn = nw.dial
	nl := nw.listen(nodeAddr)
	serveCh := make(chan error, 1)
	go func() { serveCh <- r.Serve(nl) }()
	defer func() {
		releaseGate()
		ctx, cancel := context.WithTimeout(context.Background(), 10*time.Second)
		_ = r.Shutdown(ctx)
		cancel()
		select {
		case <-serveCh:
		case <-time.After(10 * time.Second):
		}
		_ = nl.Close()
	}()
	type view struct {
		role State
		term uint64
	}
	look := func() (v view, ok bool) {
		done := make(chan error, 1)
		go func() { done <- r.inspect(func(r *Raft) { v = view{r.state, r.term} }) }()
		select {
		case err := <-done:
			return v, err == nil
		case <-time.After(5 * time.Second):
			return v, false
		}
	}

	// ---- control connection: "node 2" talking to the real node
	rwc, err := nw.dial("tcp", nodeAddr, time.Second)
	if err != nil {
		tr.err = err.Error()
		return
	}
	ctl := &conn{rwc: rwc, bufr: bufio.NewReader(rwc), bufw: bufio.NewWriter(rwc)}
	defer rwc.Close()
	dl := func() time.Time { return time.Now().Add(5 * time.Second) }
	idResp := &identityResp{}
	if err := ctl.doRPC(&identityReq{req: req{src: 2}, cid: 1, nid: 1}, idResp, dl()); err != nil || idResp.result != success {
		tr.err = fmt.Sprintf("handshake with the node: %v %v", err, idResp.result)
		return
	}
	timeoutNow := func() error {
		resp := &timeoutNowResp{}
		if err := ctl.doRPC(&timeoutNowReq{req: req{0, 2}}, resp, dl()); err != nil || resp.result != success {
			return fmt.Errorf("timeoutNow: %v %v", err, resp.result)
		}
		return nil
	}

	// 1. lead, replicate, reach the pipeline
	if err := timeoutNow(); err != nil {
		tr.err = err.Error()
		return
	}
	if !c15dsWait(5*time.Second, func() bool { v, ok := look(); return ok && v.role == Leader }) {
		tr.err = "the node did not become leader"
		return
	}
	// probe + first pipelined request (the leader's no-op entry) answered
	if !c15dsWait(5*time.Second, func() bool {
		return atomic.LoadInt64(&stub.appendResp) >= 2 && atomic.LoadInt64(&stub.appendReqs) == atomic.LoadInt64(&stub.appendResp)
	}) {
		tr.err = "replication did not reach the pipeline"
		return
	}
	time.Sleep(2 * time.Millisecond) // the writer goroutine parks in checkLeaderUpdate

	// 2. arm the gate, wake the writer with a new entry
	before := atomic.LoadInt64(&stub.appendReqs)
	atomic.StoreInt32(&nw.gate.armed, 1)
	task := UpdateFSM([]byte("x"))
	select {
	case r.FSMTasks() <- task:
	case <-time.After(2 * time.Second):
		tr.err = "UpdateFSM not accepted"
		return
	}
	select {
	case <-nw.gate.blocked:
		tr.held = true
	case <-time.After(3 * time.Second):
		tr.err = "no pipelined write arrived at the gate"
		return
	}

	// 3. step down: AppendEntries from a leader of a higher term
	v0, _ := look()
	aresp := &appendResp{}
	if err := ctl.doRPC(&appendReq{req: req{v0.term + 10, 2}}, aresp, dl()); err != nil || aresp.result != success {
		tr.err = fmt.Sprintf("step-down request: %v %v", err, aresp.result)
		return
	}
	tr.stopped = true
	// leader.release has closed repl.stopCh (it is now waiting for the replication
	// goroutine); give the pipeline loop time to see it and close its own stopCh
	time.Sleep(5 * time.Millisecond)

	// 4. let the held write return
	releaseGate()

	// 5. the node is a follower again once leader.release returned
	if !c15dsWait(5*time.Second, func() bool { v, ok := look(); return ok && v.role == Follower }) {
		tr.err = "the node did not finish stepping down"
		return
	}
	// the stub has answered everything it was sent, including the held request
	if !c15dsWait(3*time.Second, func() bool {
		return atomic.LoadInt64(&stub.appendReqs) > before && atomic.LoadInt64(&stub.appendReqs) == atomic.LoadInt64(&stub.appendResp)
	}) {
		tr.err = "the stub did not receive the held request"
		return
	}
	time.Sleep(time.Millisecond)
	var pool *connPool
	_ = r.inspect(func(r *Raft) { pool = r.connPools[2] })
	if pool != nil {
		pool.mu.Lock()
		for _, c := range pool.conns {
			tr.pooled++
			n := c.bufr.Buffered()
			if e, ok := c.rwc.(*c15dsEnd); ok {
				n += e.unread()
			}
			tr.leftover += n
		}
		pool.mu.Unlock()
	}
	if tr.leftover == 0 || !wantPhantom {
		return
	}

	// ---- consequence: the stale response is taken for a granted vote
	atomic.StoreInt32(&stub.denyVotes, 1)
	v1, _ := look()
	// record the node's role changes (tracer is the library's own test tracer,
	// called synchronously by setState; restored below)
	var trMu sync.Mutex
	var roles []string
	prev := tracer.stateChanged
	tracer.stateChanged = func(x *Raft) {
		if x == r {
			trMu.Lock()
			roles = append(roles, fmt.Sprintf("%v@term%d", x.state, x.term))
			trMu.Unlock()
		}
	}
	defer func() { tracer.stateChanged = prev }()
	if err := timeoutNow(); err != nil {
		tr.phantom = "phantom-vote step not run: " + err.Error()
		return
	}
	ledNow := func() bool {
		trMu.Lock()
		defer trMu.Unlock()
		for _, s := range roles {
			if s == fmt.Sprintf("%v@term%d", State(Leader), v1.term+1) {
				return true
			}
		}
		return false
	}
	led := c15dsWait(3*time.Second, ledNow)
	c15dsWait(time.Second, func() bool { return atomic.LoadInt64(&stub.voteDenied) > 0 })
	time.Sleep(20 * time.Millisecond) // what the misaligned stream does to the new leader's replication
	after := "still serving"
	if r.isClosed() {
		select {
		case <-r.closed:
		case <-time.After(5 * time.Second):
		}
		after = fmt.Sprintf("then shut itself down with %q", fmt.Sprint(r.closeReason))
	}
	trMu.Lock()
	hist := fmt.Sprint(roles)
	trMu.Unlock()
	tr.phantom = fmt.Sprintf("with %d unread bytes on the pooled connection: timeoutNow at term %d, the only peer DENIED the vote request of the new election (%d denied, 0 granted), yet the node became leader of term %d: %v (role changes %s; %s) - the stale appendResp was decoded as voteResp{success}",
		tr.leftover, v1.term, atomic.LoadInt64(&stub.voteDenied), v1.term+1, led, hist, after)
	return
}

func c15dsScratchBase() string {
	base := os.Getenv("VERIF_SCRATCH")
	if base == "" {
		base = "/dev/shm"
	}
	if st, err := os.Stat(base); err != nil || !st.IsDir() {
		base = os.TempDir()
	}
	return base
}

func c15dsRun(trials int) (written, leftover int, detail []string) {
	if trials <= 0 {
		trials = 64
	}
	phantomDone := false
	errs := map[string]int{}
	var bytesSeen []int
	for i := 0; i < trials; i++ {
		tr := c15dsTrialRun(!phantomDone)
		if tr.err != "" {
			errs[tr.err]++
			continue
		}
		if tr.held && tr.stopped {
			written++
		}
		if tr.leftover > 0 {
			leftover++
			bytesSeen = append(bytesSeen, tr.leftover)
			if tr.phantom != "" && !phantomDone {
				phantomDone = true
				detail = append(detail, fmt.Sprintf("trial %d: %s", i, tr.phantom))
			}
		}
	}
	detail = append([]string{fmt.Sprintf("%d trials: in %d the pipelined AppendEntries write was held and released after repl.stopCh was closed; after %d of them a connection with unread response bytes %v was in the leader's connPool (appendResp is 17 bytes)", trials, written, leftover, bytesSeen)}, detail...)
	for e, n := range errs {
		detail = append(detail, fmt.Sprintf("%d trials could not be set up: %s", n, e))
	}
	return written, leftover, detail
}
