// Command vraft runs the verification harness that is injected into package
// raft through `go build -overlay` (see /verif/bin/build.sh).
package main

import (
	"os"

	"github.com/santhosh-tekuri/raft"
)

func main() {
	os.Exit(raft.VerifMain(os.Args[1:]))
}
