// Command vlog runs the verification harness that is injected into package
// raft/log through `go build -overlay` (see /verif/bin/build.sh).
package main

import (
	"os"

	"github.com/santhosh-tekuri/raft/log"
)

func main() {
	os.Exit(log.VerifMain(os.Args[1:]))
}
